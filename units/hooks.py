"""U6 - running hooks (acmed/src/hooks.rs).  Serves C10."""
import re
from unit import Unit, FnSpec, source

H = "acmed/src/hooks.rs"


def filter_loop(relpath, fname):
    """T-ITER: `for X in V.iter().filter(|P| COND) {B}`  ->  `for X in it: V.iter() { if { let P = &X; COND } {B} }`
    (COND is taken verbatim from the source)"""
    txt = source(relpath).text
    m = re.search(r"for (?P<x>\w+) in (?P<v>[\w\.]+)\.iter\(\)\.filter\(\|(?P<p>\w+)\| (?P<c>[^\n]*?)\) \{", txt)
    if not m:
        return None
    hdr = ("T-ITER", r"for (?P<x>\w+) in (?P<v>[\w\.]+)\.iter\(\)\.filter\(\|(?P<p>\w+)\| (?P<c>[^\n]*?)\)(?= \{)",
           r"for \g<x> in it: \g<v>.iter()")
    return m, hdr


def build():
    u = Unit("hooks", "acmed")
    u.prelude("err", "log", "stdx", "time", "hooks_shims")
    u.ghost_call("call_single", quals=("",))
    u.ghost_call("spawn", method=True)
    u.ghost_call("status", method=True)
    u.drop_derives = {"Debug", "Eq", "Hash", "PartialEq", "Clone", "Copy"}
    u.raw("", WORLD, trusted=True)
    u.module("config", "")
    u.take("acmed/src/config.rs", "HookType", "config", keep_derives=("Eq", "Hash", "PartialEq", "Clone"))
    u.module("logs", "")
    u.take("acmed/src/logs.rs", "HasLogger", "logs")
    u.module("hooks", "use crate::*;\npub use crate::config::HookType;\nuse crate::logs::HasLogger;\nuse crate::acme_common::error::Error;\n"
             "use crate::vproc::*;\nuse crate::serde::Serialize;\nuse std::collections::{HashMap, HashSet};")
    u.take(H, "HookEnvData", "hooks", fns={"get_env": FnSpec(ret="r", sig="        ensures r.id@ == env_id_of(self),")})
    u.take(H, "HookStdin", "hooks")
    u.take(H, "Hook", "hooks")
    u.raw("hooks", SPEC)
    u.macro(H, "get_hook_output")
    u.verify(H, "call_single", "hooks", props=["C10", "C07", "C05"], fns={"call_single": FnSpec(ret="r", ghost=True, sig="""
    requires !old(w).running,
    ensures r is Ok ==> !final(w).running,
        // an error between spawn and wait (stdin template / stdin write) must not leave the child un-waited
        r is Err ==> !final(w).running, //@C10.no_child_left_running_on_error
        // the hook's command is spawned once, with the documented arguments / environment / redirections, and waited for;
        // a failing exit status is an error unless allow_failure is set
        r is Ok ==> (proc_of(*hook, data) matches Some(p) && final(w).spawned == old(w).spawned.push(p)), //@C10.process_is_the_configured_command
        // a hook that did not end with exit code 0 (another code, or killed by a signal) is a failed step unless allow_failure is set
        r is Ok ==> final(w).last_exit_ok || hook.allow_failure, //@C10.a_failed_hook_aborts_the_operation_unless_allow_failure,C07.a_failed_step_makes_a_failed_attempt,C05.a_failed_challenge_hook_stops_the_validation
        final(w).bad_exits <= old(w).bad_exits + 1, r is Ok && !hook.allow_failure ==> final(w).bad_exits == old(w).bad_exits, //@C10.a_failed_hook_aborts_the_operation_unless_allow_failure,C07.a_failed_step_makes_a_failed_attempt,C05.a_failed_challenge_hook_stops_the_validation
        r is Err ==> final(w).spawned == old(w).spawned
            || (proc_of(*hook, data) matches Some(p) && final(w).spawned == old(w).spawned.push(p)), //@C10.error_leaves_at_most_this_process
""", loops={1: """
    invariant render_all($lst@.take(it.index@), data) == Some(strs($v@)), hook.args == Some(*$lst), *w == *old(w),
""", 2: """
    invariant proc_of(*hook, data) matches Some(p) && w.spawned == old(w).spawned.push(p),
"""}, at=[("loop_iter", None, 1, "it:"),
          ("before_stmt", "for $fmt in", 1, "proof { assert($lst@.take(0) =~= Seq::<String>::empty()); assert(strs($v@) =~= Seq::<Seq<char>>::empty()); }"),
          ("after_stmt", "$v.push($s)", 1, """
                proof {
                    let k = it.index@;
                    assert($lst@.take(k + 1).drop_last() =~= $lst@.take(k));
                    assert($lst@.take(k + 1).last() == $lst@[k]);
                    assert(strs($v@) =~= strs(v_before@).push(s_view));
                }"""),
          ("before_stmt", "$v.push($s)", 1, "let ghost v_before = $v; let ghost s_view = $s@;"),
          ("before_stmt", "$v.as_slice()", 1, "proof { assert($lst@.take($lst@.len() as int) =~= $lst@); }"),
          ], names={"lst": r"Some\((\w+)\) => \{\s*for \w+ in \w+\.iter\(\)", "v": r"let mut (\w+) = vec!\[\];", "s": r"let (\w+) = render_template\(\w+, &data\)\?;", "fmt": r"for (\w+) in \w+\.iter\(\) \{\s*let \w+ = render_template"},
        rewrites=[("T-FMT", r"format!\(\"\{\}\\n\", line\?\)", 'crate::vproc::cat2(&line?, "\\n")')])})
    m, hdr = filter_loop(H, "call")
    cond = m.group("c")
    u.verify(H, "call", "hooks", props=["C10", "C07", "C05"], fns={"call": FnSpec(ret="r", ghost=True, sig="""
    requires !old(w).running,
    ensures r is Ok ==> !final(w).running,
        // exactly the hooks whose type list contains the event's type are run, one after the other, in declaration order;
        // the first hard failure aborts the sequence
        r is Ok ==> final(w).spawned == old(w).spawned + selected(hooks@, hook_type, *data, hooks@.len() as int), //@C10.hooks_of_this_type_in_order
        // the sequence is reported as done only if every hook that may not fail ended with exit code 0
        r is Ok ==> final(w).bad_exits <= old(w).bad_exits + tolerant(hooks@, hook_type, hooks@.len() as int), //@C10.a_failed_hook_aborts_the_operation_unless_allow_failure,C07.a_failed_step_makes_a_failed_attempt,C05.a_failed_challenge_hook_stops_the_validation
        r is Err ==> exists|k: int| 0 <= k < hooks@.len() && hooks@[k].hook_type@.contains(hook_type)
            && (final(w).spawned == old(w).spawned + selected(hooks@, hook_type, *data, k + 1)
                || final(w).spawned == old(w).spawned + selected(hooks@, hook_type, *data, k)), //@C10.first_hard_failure_aborts
""", loops={1: """
    invariant !w.running, w.spawned == old(w).spawned + selected(hooks@, hook_type, *data, it.index@),
        w.bad_exits <= old(w).bad_exits + tolerant(hooks@, hook_type, it.index@), //@C10.a_failed_hook_aborts_the_operation_unless_allow_failure,C07.a_failed_step_makes_a_failed_attempt,C05.a_failed_challenge_hook_stops_the_validation
"""}, rewrites=[hdr],
        at=[("loop_start", None, 1, "if { let " + m.group("p") + " = &" + m.group("x") + "; " + cond + " } {", "T-ITER"),
            ("loop_end", None, 1, "} else { proof { lemma_selected_step(hooks@, hook_type, *data, it.index@); lemma_tolerant_step(hooks@, hook_type, it.index@); } }", "T-ITER"),
            ("after_stmt", "call_single(", 1, "proof { lemma_selected_step(hooks@, hook_type, *data, it.index@); lemma_tolerant_step(hooks@, hook_type, it.index@); }"),
            ])})
    return u


WORLD = """
// ghost world of hook execution: the hooks whose command has been spawned, in order;
// `running` = a child process has been spawned and not yet waited for
pub tracked struct World {
    pub ghost spawned: Seq<crate::vproc::ProcSpec>,
    pub ghost runs: Seq<int>,      // unused
    pub ghost running: bool,
    pub ghost last_exit_ok: bool,  // the latest child waited for ended with exit code 0 (not another code, not a signal)
    pub ghost bad_exits: nat,      // children waited for that did not end with exit code 0 (or could not be waited for)
}
"""

SPEC = """
broadcast use crate::vproc::axiom_hooktype_key_model;
// what the process spawned for a hook must look like: the command, the arguments rendered in order, the data's
// environment, stdin piped when the hook has a stdin, stdout/stderr to the rendered paths; None = some template does not render
pub open spec fn render_all<T>(tpls: Seq<String>, data: T) -> Option<Seq<Seq<char>>>
    decreases tpls.len()
{
    if tpls.len() == 0 { Some(Seq::empty()) } else {
        match (render_all(tpls.drop_last(), data), render_spec(tpls.last()@, data)) {
            (Some(a), Some(s)) => Some(a.push(s)),
            _ => None,
        }
    }
}
pub open spec fn out_of<T>(o: Option<String>, data: T) -> Option<StdioSpec> {
    match o { None => Some(StdioSpec::Null), Some(p) => match render_spec(p@, data) { Some(s) => Some(StdioSpec::ToFile(s)), None => None } }
}
pub open spec fn proc_of<T: HookEnvData>(hook: Hook, data: &T) -> Option<ProcSpec> {
    let args = match hook.args { Some(l) => render_all(l@, data), None => Some(Seq::empty()) };
    match (args, out_of(hook.stdout, data), out_of(hook.stderr, data)) {
        (Some(a), Some(o), Some(e)) => Some(ProcSpec { cmd: hook.cmd@, args: a, env_id: env_id_of(data),
            stdin: (if hook.stdin is None { StdioSpec::Null } else { StdioSpec::Piped }), stdout: o, stderr: e }),
        _ => None,
    }
}
// the processes of the hooks among the first n that carry the event's type, in order
pub open spec fn selected<T: HookEnvData>(hooks: Seq<Hook>, ty: HookType, data: T, n: int) -> Seq<ProcSpec>
    decreases n
{
    if n <= 0 { Seq::empty() } else {
        let prev = selected(hooks, ty, data, n - 1);
        if hooks[n - 1].hook_type@.contains(ty) && proc_of(hooks[n - 1], &data) is Some { prev.push(proc_of(hooks[n - 1], &data).unwrap()) } else { prev }
    }
}
// how many of the first n hooks are of this type and may fail (allow_failure)
pub open spec fn tolerant(hooks: Seq<Hook>, ty: HookType, n: int) -> nat
    decreases n
{
    if n <= 0 { 0 } else { tolerant(hooks, ty, n - 1) + (if hooks[n - 1].hook_type@.contains(ty) && hooks[n - 1].allow_failure { 1nat } else { 0nat }) }
}
pub proof fn lemma_tolerant_step(hooks: Seq<Hook>, ty: HookType, i: int)
    requires 0 <= i < hooks.len()
    ensures tolerant(hooks, ty, i + 1) == tolerant(hooks, ty, i) + (if hooks[i].hook_type@.contains(ty) && hooks[i].allow_failure { 1nat } else { 0nat })
{}
pub proof fn lemma_selected_step<T: HookEnvData>(hooks: Seq<Hook>, ty: HookType, data: T, i: int)
    requires 0 <= i < hooks.len()
    ensures selected(hooks, ty, data, i + 1) == (if hooks[i].hook_type@.contains(ty) && proc_of(hooks[i], &data) is Some
                { selected(hooks, ty, data, i).push(proc_of(hooks[i], &data).unwrap()) } else { selected(hooks, ty, data, i) })
{}
"""
