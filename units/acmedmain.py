"""acmed/src/main.rs::inner_main - from the command line to MainEventLoop::new: which root certificates and which configuration
file the daemon starts with.  Serves C18 (the trust store is extended by exactly the --root-cert files)."""
from unit import Unit, FnSpec

M = "acmed/src/main.rs"


def build():
    u = Unit("acmedmain", "acmed")
    u.prelude("stdx", "acmedmain_shims")
    u.module("", "use crate::clap::{Arg, ArgAction, Command};\nuse crate::shims::*;")
    for c in ["APP_NAME", "APP_VERSION", "DEFAULT_CONFIG_FILE", "DEFAULT_PID_FILE"]:
        u.take(M, c, "")
    u.verify(M, "inner_main", "", props=["C18"], fns={"inner_main": FnSpec(rewrites=[
        ("T-FMT", r"let full_version = format!\((?:[^()]|\([^()]*\))*\);", "let full_version = crate::opaque_string();", 1),
        ("T-FMT", r"DEFAULT_LOG_LEVEL\.to_string\(\)\.to_lowercase\(\)", "crate::opaque_string()", None),
        ("T-LOG", r"eprintln!\((?:[^()]|\([^()]*\))*\);", "();", None),
        ("T-MAP", r"(?P<m>\w+)\s*\.get_one::<String>\((?P<k>[^()]*)\)\s*\.map\(\|e\| e\.as_str\(\)\)", lambda m: f"crate::clap::opt_as_str({m.group('m')}.get_one_string({m.group('k')}))", None),
        ("T-MAP", r"(?P<m>\w+)\s*\.get_one::<String>\((?P<k>[^()]*)\)(?!\s*\.map\(\|e\| e\.as_str)", lambda m: f"{m.group('m')}.get_one_string({m.group('k')})", None),
        ("T-MAP", r"(?P<m>\w+)\s*\.get_many::<String>\((?P<k>[^()]*)\)", lambda m: f"{m.group('m')}.get_many_string({m.group('k')})", None),
        ("T-ITER", r"(?P<v>\w+)\.map\(\|e\| e\.as_str\(\)\)\.collect\(\)", lambda m: f"crate::clap::values_as_strs({m.group('v')})", None),
        ("T-STD", r"std::process::exit\(", "crate::shims::exit(", None),
        ("T-ATTR", r"clap::builder::ArgPredicate", "crate::clap::builder::ArgPredicate", None),
    ], at=[("before_stmt_re", r"let mut srv = match MainEventLoop::new\(", 1, """
    proof {
        assert(root_certs@.map_values(|s: &str| s@) =~= crate::clap::given("root-cert"@));
    }""")])})
    return u
