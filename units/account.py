"""U10 - account synchronisation (acmed/src/account.rs).  Serves C11."""
from unit import Unit, FnSpec

A = "acmed/src/account.rs"


def vec_cmp(m):
    """T-CMP: `A == B` / `A != B` on Vec<u8> values -> a shim comparing the byte sequences; the operator is kept"""
    f = "bytes_eq" if m.group("op") == "==" else "bytes_ne"
    return f"crate::shims::{f}(&{m.group('a')}, &{m.group('b')})"


def build():
    u = Unit("account", "acmed")
    u.prelude("err", "log", "stdx", "time")
    u.raw("", WORLD, trusted=True)
    u.ghost_call("register_account", quals=("",))
    u.ghost_call("update_account_contacts", quals=("",))
    u.ghost_call("update_account_key", quals=("",))
    u.ghost_call("save", method=True)
    u.drop_derives = {"Debug", "Clone", "Hash", "PartialEq"}
    u.module("logs", "")
    u.take("acmed/src/logs.rs", "HasLogger", "logs")
    u.module("account", "use crate::*;\nuse crate::shims::*;\nuse crate::logs::HasLogger;\nuse crate::acme_common::error::Error;\n"
             "use std::collections::HashMap;\nuse std::time::SystemTime;")
    u.raw("account", "pub mod contact { use vstd::prelude::*; verus! { pub struct AccountContact { pub opaque: u8 } } }\n", trusted=True)
    for t in ["ExternalAccount", "AccountKey", "AccountEndpoint", "Account"]:
        u.take(A, t, "account")
    u.verify(A, "impl HasLogger for Account", "account", props=["C11"])
    u.raw("account", SPEC)
    u.raw("account", STUBS, trusted=True)
    u.verify(A, "Account::synchronize", "account", props=["C11"], fns={"synchronize": FnSpec(ret="r", ghost=True, sig="""
    requires stored_in_step(*old(self), old(endpoint).name@, *old(w)),
    ensures
        // afterwards the CA's record is in line with the configuration, and the stored fingerprints say so
        r is Ok ==> ca_in_step_with_config(*final(self), *final(w)) && stored_in_step(*final(self), final(endpoint).name@, *final(w)), //@C11.ca_record_brought_in_line_with_configuration
        // an account is created only when no account URL is stored, or the external binding changed (or, inside the
        // update requests, when the CA reports the account unknown)
        r is Ok ==> ({
            let ep = ep_of(*old(self), old(endpoint).name@).unwrap();
            let o = old(w).requests; let n = final(w).requests;
            let kc = key_fp(old(self).current_key) != ep.key_hash@;
            let cc = contacts_fp(old(self).contacts@) != ep.contacts_hash@;
            &&& (ep.account_url@.len() == 0 ==> n == o.push(Req::NewAccount))
            &&& (ep.account_url@.len() > 0 && eab_changed(*old(self), ep) ==> n == o.push(Req::NewAccount))
            &&& (ep.account_url@.len() > 0 && !eab_changed(*old(self), ep) ==> ({
                    &&& (!kc && !cc ==> n == o)
                    &&& (kc && !cc ==> n == o.push(Req::KeyChange) || n == o.push(Req::KeyChange).push(Req::NewAccount))
                    &&& (!kc && cc ==> n == o.push(Req::ContactUpdate) || n == o.push(Req::ContactUpdate).push(Req::NewAccount))
                    // both changed: the key roll-over first (signed by the key the CA holds), then the contacts
                    &&& (kc && cc ==> n == o.push(Req::KeyChange).push(Req::ContactUpdate)
                            || n == o.push(Req::KeyChange).push(Req::ContactUpdate).push(Req::NewAccount)
                            || n == o.push(Req::KeyChange).push(Req::NewAccount).push(Req::ContactUpdate)
                            || n == o.push(Req::KeyChange).push(Req::NewAccount).push(Req::ContactUpdate).push(Req::NewAccount))
                }))
        }), //@C11.one_request_per_changed_item_registration_only_when_needed
        final(endpoint).name == old(endpoint).name,
""", rewrites=[("T-CMP", r"(?P<a>external_account_hash|ct_hash|key_hash) (?P<op>!=|==) (?P<b>acc_ep\.\w+)", vec_cmp, 3)])})
    u.verify(A, "Account::update_keys", "account", props=["C11"], fns={"update_keys": FnSpec(ret="r", ghost=True, sig="""
    ensures
        // a change of key type or algorithm keeps the old key among the superseded ones (the CA still holds it), makes a
        // new key of the configured type current, and stores that at once
        r is Ok && (old(self).current_key.key.key_type != key_type || old(self).current_key.signature_algorithm != signature_algorithm) ==>
            final(self).past_keys@ == old(self).past_keys@.push(old(self).current_key)
            && final(self).current_key.key.key_type == key_type && final(self).current_key.signature_algorithm == signature_algorithm
            && final(w).saves == old(w).saves + 1, //@C11.superseded_key_is_kept_and_saved
        r is Ok && !(old(self).current_key.key.key_type != key_type || old(self).current_key.signature_algorithm != signature_algorithm) ==>
            *final(self) == *old(self) && final(w).saves == old(w).saves, //@C11.unchanged_key_is_left_alone
        final(w).requests == old(w).requests,
""", rewrites=[("T-FMT", r"format!\(\"new \{key_type\} account key created, using \{signature_algorithm\} as signing algorithm\"\)", "crate::opaque_string()")])})
    u.verify(A, "Account::get_past_key", "account", props=["C11"], fns={"get_past_key": FnSpec(ret="r", sig="""
    ensures r matches Ok(k) ==> self.past_keys@.contains(*k) && key_fp(*k) == key_hash@, //@C11.rollover_is_authorised_by_the_key_with_the_stored_fingerprint
""", loops={1: "    invariant key_hash@ == key_hash_0@,"}, body_start="let ghost key_hash_0 = key_hash;",
        attrs="#[verifier::loop_isolation(false)]",
        rewrites=[("T-ITER", r"for key in &self\.past_keys", "for key in it: self.past_keys.iter()"),
                  ("T-CMP", r"(?P<a>past_key_hash) (?P<op>!=|==) (?P<b>key_hash)", vec_cmp)])})
    return u


WORLD = """
// Ghost world of one (account, endpoint) pair: what the CA holds, the account requests sent, the saves done.
pub ghost enum Req { NewAccount, ContactUpdate, KeyChange }
pub tracked struct World {
    pub ghost ca_key: Seq<u8>,        // fingerprint of the key the CA has on record for the account
    pub ghost ca_contacts: Seq<u8>,   // fingerprint of the contacts it has on record
    pub ghost ca_eab: Seq<u8>,
    pub ghost requests: Seq<Req>,
    pub ghost saves: nat,
}
pub mod shims {
    use vstd::prelude::*;
    use crate::*;
    verus! {
    #[verifier::external_type_specification]
    #[verifier::external_body]
    pub struct ExSystemTime(std::time::SystemTime);
    pub assume_specification [std::time::SystemTime::now] () -> std::time::SystemTime;
    #[derive(Clone, Copy, PartialEq)]
    pub struct KeyType { pub id: u8 }
    #[derive(Clone, Copy, PartialEq)]
    pub struct JwsSignatureAlgorithm { pub id: u8 }
    impl vstd::std_specs::cmp::PartialEqSpecImpl for KeyType {
        open spec fn obeys_eq_spec() -> bool { true }
        open spec fn eq_spec(&self, other: &KeyType) -> bool { *self == *other }
    }
    impl vstd::std_specs::cmp::PartialEqSpecImpl for JwsSignatureAlgorithm {
        open spec fn obeys_eq_spec() -> bool { true }
        open spec fn eq_spec(&self, other: &JwsSignatureAlgorithm) -> bool { *self == *other }
    }
    pub struct KeyPair { pub key_type: KeyType, pub id: Ghost<int> }
    // verified in unit `keys`: a generated key has the requested type
    #[verifier::external_body]
    pub fn gen_keypair(key_type: KeyType) -> (r: Result<KeyPair, crate::acme_common::error::Error>)
        ensures r matches Ok(k) ==> k.key_type == key_type { unimplemented!() }
    #[verifier::external_body]
    pub fn bytes_eq(a: &Vec<u8>, b: &Vec<u8>) -> (r: bool) ensures r == (a@ == b@) { a == b }
    #[verifier::external_body]
    pub fn bytes_ne(a: &Vec<u8>, b: &Vec<u8>) -> (r: bool) ensures r == (a@ != b@) { a != b }
    pub struct FileManager { pub opaque: u8 }
    pub struct Endpoint { pub name: String }
    }
}
"""

SPEC = """
// fingerprints (SHA-256 of the public key PEM / of the contact list / of the binding key and identifier): uninterpreted
pub uninterp spec fn key_fp(k: AccountKey) -> Seq<u8>;
pub uninterp spec fn contacts_fp(c: Seq<contact::AccountContact>) -> Seq<u8>;
pub uninterp spec fn eab_fp(e: ExternalAccount) -> Seq<u8>;
// the per-endpoint record of an account (HashMap lookup by endpoint name)
pub uninterp spec fn ep_of(a: Account, name: Seq<char>) -> Option<AccountEndpoint>;
pub open spec fn eab_changed(a: Account, ep: AccountEndpoint) -> bool {
    a.external_account matches Some(ec) && eab_fp(ec) != ep.external_account_hash@
}
// what is stored for the endpoint describes what the CA holds (true after every successful request + save)
pub open spec fn stored_in_step(a: Account, name: Seq<char>, w: World) -> bool {
    ep_of(a, name) matches Some(ep) ==> (ep.account_url@.len() > 0 ==>
        ep.key_hash@ == w.ca_key && ep.contacts_hash@ == w.ca_contacts)
}
pub open spec fn ca_in_step_with_config(a: Account, w: World) -> bool {
    w.ca_key == key_fp(a.current_key) && w.ca_contacts == contacts_fp(a.contacts@)
}
// one request per changed item, the key roll-over first
pub open spec fn expected_updates(key_changed: bool, contacts_changed: bool) -> Seq<Req> {
    (if key_changed { seq![Req::KeyChange] } else { Seq::<Req>::empty() }) + (if contacts_changed { seq![Req::ContactUpdate] } else { Seq::<Req>::empty() })
}
pub open spec fn same_config(a: Account, b: Account) -> bool {
    a.name == b.name && a.contacts == b.contacts && a.current_key == b.current_key && a.past_keys == b.past_keys && a.external_account == b.external_account
}
"""

STUBS = """
impl Clone for AccountKey { #[verifier::external_body] fn clone(&self) -> (r: Self) ensures r == *self { unimplemented!() } }
impl AccountKey {
    // account.rs::AccountKey::new
    #[verifier::external_body]
    pub fn new(key_type: KeyType, signature_algorithm: JwsSignatureAlgorithm) -> (r: Result<AccountKey, Error>)
        ensures r matches Ok(k) ==> k.key.key_type == key_type && k.signature_algorithm == signature_algorithm { unimplemented!() }
}
impl Account {
    #[verifier::external_body]
    pub fn get_endpoint(&self, endpoint_name: &str) -> (r: Result<&AccountEndpoint, Error>)
        ensures match r { Ok(ep) => ep_of(*self, endpoint_name@) == Some(*ep), Err(_) => ep_of(*self, endpoint_name@) is None } { unimplemented!() }
    // storage::save: the account file is rewritten (C02 / persistence in unit storage)
    #[verifier::external_body]
    pub fn save(&self, Tracked(w): Tracked<&mut World>) -> (r: Result<(), Error>)
        ensures final(w).saves == old(w).saves + 1, final(w).requests == old(w).requests,
            final(w).ca_key == old(w).ca_key, final(w).ca_contacts == old(w).ca_contacts, final(w).ca_eab == old(w).ca_eab { unimplemented!() }
}
#[verifier::external_body]
fn hash_contacts(contacts: &Vec<contact::AccountContact>) -> (r: Vec<u8>) ensures r@ == contacts_fp(contacts@) { unimplemented!() }
#[verifier::external_body]
fn hash_key(key: &AccountKey) -> (r: Result<Vec<u8>, Error>) ensures r matches Ok(v) ==> v@ == key_fp(*key) { unimplemented!() }
#[verifier::external_body]
fn hash_external_account(ec: &ExternalAccount) -> (r: Vec<u8>) ensures r@ == eab_fp(*ec) { unimplemented!() }

// ---- the three account requests (acme_proto/account.rs), as contracts over what the CA holds.
// Every request except newAccount is signed by a key: the CA accepts it only if that is the key it has on record.
#[verifier::external_body]
pub fn register_account(endpoint: &mut Endpoint, account: &mut Account, Tracked(w): Tracked<&mut World>) -> (r: Result<(), Error>)
    ensures final(endpoint).name == old(endpoint).name, same_config(*final(account), *old(account)),
        r is Ok ==> final(w).requests == old(w).requests.push(Req::NewAccount)
            && ca_in_step_with_config(*final(account), *final(w)) && stored_in_step(*final(account), final(endpoint).name@, *final(w))
            && (ep_of(*final(account), final(endpoint).name@) matches Some(ep) && ep.account_url@.len() > 0),
{ unimplemented!() }
#[verifier::external_body]
pub fn update_account_contacts(endpoint: &mut Endpoint, account: &mut Account, Tracked(w): Tracked<&mut World>) -> (r: Result<(), Error>)
    requires
        // signed with the account's current key: that must be the key the CA has on record
        key_fp(old(account).current_key) == old(w).ca_key, //@C11.contact_update_is_signed_by_the_key_the_ca_holds
    ensures final(endpoint).name == old(endpoint).name, same_config(*final(account), *old(account)),
        r is Ok ==> (final(w).requests == old(w).requests.push(Req::ContactUpdate)
                || final(w).requests == old(w).requests.push(Req::ContactUpdate).push(Req::NewAccount))
            && final(w).ca_contacts == contacts_fp(final(account).contacts@) && final(w).ca_key == key_fp(final(account).current_key)
            && stored_in_step(*final(account), final(endpoint).name@, *final(w))
            && (ep_of(*final(account), final(endpoint).name@) matches Some(ep) && ep.account_url@.len() > 0),
{ unimplemented!() }
#[verifier::external_body]
pub fn update_account_key(endpoint: &mut Endpoint, account: &mut Account, Tracked(w): Tracked<&mut World>) -> (r: Result<(), Error>)
    requires
        // the roll-over is authorised by the superseded key whose fingerprint is stored: that must be the key the CA holds
        ep_of(*old(account), old(endpoint).name@) matches Some(ep) && ep.key_hash@ == old(w).ca_key, //@C11.key_rollover_is_authorised_by_the_key_the_ca_holds
    ensures final(endpoint).name == old(endpoint).name, same_config(*final(account), *old(account)),
        r is Ok ==> (final(w).requests == old(w).requests.push(Req::KeyChange)
                || final(w).requests == old(w).requests.push(Req::KeyChange).push(Req::NewAccount))
            && final(w).ca_key == key_fp(final(account).current_key)
            && (final(w).requests == old(w).requests.push(Req::KeyChange) ==> final(w).ca_contacts == old(w).ca_contacts
                    && (ep_of(*final(account), final(endpoint).name@) matches Some(ep2) && ep_of(*old(account), old(endpoint).name@) matches Some(ep1)
                        && ep2.contacts_hash == ep1.contacts_hash && ep2.key_hash@ == final(w).ca_key && ep2.account_url == ep1.account_url))
            && (final(w).requests != old(w).requests.push(Req::KeyChange) ==> ca_in_step_with_config(*final(account), *final(w)))
            && stored_in_step(*final(account), final(endpoint).name@, *final(w))
            && (ep_of(*final(account), final(endpoint).name@) matches Some(ep) && ep.account_url@.len() > 0),
{ unimplemented!() }
"""
