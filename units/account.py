"""U10 - account synchronisation (acmed/src/account.rs).  Serves C11."""
from unit import Unit, FnSpec

A = "acmed/src/account.rs"


def vec_cmp(m):
    """T-CMP: `A == B` / `A != B` on Vec<u8> values -> a shim comparing the byte sequences; the operator is kept"""
    f = "bytes_eq" if m.group("op") == "==" else "bytes_ne"
    return f"crate::shims::{f}(&{m.group('a')}, &{m.group('b')})"


def build():
    u = Unit("account", "acmed")
    u.prelude("err", "log", "stdx", "time")
    u.raw("", WORLD, trusted=True)
    u.ghost_call("register_account", quals=("",))
    u.ghost_call("update_account_contacts", quals=("",))
    u.ghost_call("update_account_key", quals=("",))
    u.ghost_call("save", method=True)
    u.drop_derives = {"Debug", "Clone", "Hash", "PartialEq"}
    u.module("logs", "")
    u.take("acmed/src/logs.rs", "HasLogger", "logs")
    u.module("account", "use crate::*;\nuse crate::shims::*;\nuse crate::logs::HasLogger;\nuse crate::acme_common::error::Error;\n"
             "use std::collections::HashMap;\nuse std::time::SystemTime;")
    u.raw("account", "pub mod contact { use vstd::prelude::*; verus! { pub struct AccountContact { pub opaque: u8 } impl Clone for AccountContact { fn clone(&self) -> (r: Self) ensures r == *self { AccountContact { opaque: self.opaque } } } #[verifier::external] impl std::fmt::Display for AccountContact { fn fmt(&self, f: &mut std::fmt::Formatter) -> std::fmt::Result { Ok(()) } } } }\n", trusted=True)
    for t in ["ExternalAccount", "AccountKey", "AccountEndpoint", "Account"]:
        u.take(A, t, "account")
    u.verify(A, "impl HasLogger for Account", "account", props=["C11"])
    u.raw("account", SPEC)
    u.raw("account", STUBS, trusted=True)
    u.raw("account", PROTO_STUBS, trusted=True)
    SHA = ("T-MAP", r"HashFunction::Sha256\.hash\(", "crate::account::sha256_hash(", None)
    u.verify(A, "hash_contacts", "account", props=["C11"], fns={"hash_contacts": FnSpec(ret="r", rewrites=[SHA,
        ("T-ITER", r"contacts\s*\.iter\(\)\s*\.map\(\|(?P<p>\w+)\|\s*(?P<b>[^{}]*?)\)\s*\.collect::<Vec<String>>\(\)\s*\.join\(\"\"\)",
         lambda m: f"crate::account::texts_joined(contacts, |{m.group('p')}: &contact::AccountContact| -> (s__: String)\n    ensures s__@ == contact_text(*{m.group('p')}) //@C11.fingerprints_cover_everything_they_stand_for\n {{ {m.group('b')} }})", 1)],
        body_start="broadcast use crate::account::axiom_contact_to_string;", sig="""
    ensures r@ == contacts_fp(contacts@), //@C11.fingerprints_cover_everything_they_stand_for
""")})
    u.verify(A, "hash_key", "account", props=["C11"], fns={"hash_key": FnSpec(ret="r", rewrites=[SHA], sig="""
    ensures r matches Ok(v) ==> v@ == key_fp(*key), //@C11.fingerprints_cover_everything_they_stand_for
        (r is Err) == pem_fails(key.key),
""")})
    u.verify(A, "hash_external_account", "account", props=["C11"], fns={"hash_external_account": FnSpec(ret="r", rewrites=[SHA,
        ("T-MAP", r"(?P<v>\w+)\.extend\((?P<e>[^()]*\.as_bytes\(\))\)", r"\g<v>.extend_from_slice(\g<e>)", None)], sig="""
    ensures r@ == eab_fp(*ec), //@C11.fingerprints_cover_everything_they_stand_for
""")})
    GET = ("T-MAP", r"self\.endpoints\.get\(endpoint_name\)", "crate::shims::eps_get(&self.endpoints, endpoint_name)")
    GETM = ("T-MAP", r"self\.endpoints\.get_mut\(endpoint_name\)", "crate::shims::eps_get_mut(&mut self.endpoints, endpoint_name)")
    u.verify(A, "Account::get_endpoint", "account", props=["C11"], fns={"get_endpoint": FnSpec(ret="r", sig="""
    ensures match r { Ok(ep) => ep_of(*self, endpoint_name@) == Some(*ep), Err(_) => ep_of(*self, endpoint_name@) is None }, //@C11.endpoint_record_is_the_one_stored_under_the_endpoint_name
""", rewrites=[GET])})
    u.verify(A, "Account::get_endpoint_mut", "account", props=["C11"], fns={"get_endpoint_mut": FnSpec(ret="r", sig="""
    ensures match r {
        Ok(ep) => ep_of(*old(self), endpoint_name@) == Some(*ep) && only_endpoint_changed(*old(self), *final(self), endpoint_name@, *final(ep)),
        Err(_) => ep_of(*old(self), endpoint_name@) is None && same_but_endpoints(*old(self), *final(self)) && eps_map(final(self).endpoints) == eps_map(old(self).endpoints) }, //@C11.endpoint_record_is_the_one_stored_under_the_endpoint_name
""", rewrites=[GETM])})
    u.verify(A, "AccountEndpoint::new", "account", props=["C11"], fns={"new": FnSpec(ret="r", sig="""
    ensures r.account_url@.len() == 0 && r.orders_url@.len() == 0 && r.key_hash@.len() == 0 && r.contacts_hash@.len() == 0 && r.external_account_hash@.len() == 0, //@C11.fresh_endpoint_record_means_not_registered
""", rewrites=[("T-CONST-STD", r"SystemTime::UNIX_EPOCH", "crate::shims::unix_epoch()")])})
    u.verify(A, "Account::add_endpoint_name", "account", props=["C11"], fns={"add_endpoint_name": FnSpec(sig="""
    ensures same_but_endpoints(*old(self), *final(self)),
        // an endpoint already known keeps what is stored for it (account URL, fingerprints); a new one starts unregistered
        ep_of(*old(self), endpoint_name@) is Some ==> eps_map(final(self).endpoints) == eps_map(old(self).endpoints), //@C11.known_endpoint_record_is_kept
        ep_of(*old(self), endpoint_name@) is None ==> (ep_of(*final(self), endpoint_name@) matches Some(ep) && ep.account_url@.len() == 0
            && forall|n: Seq<char>| n != endpoint_name@ ==> ep_of(*final(self), n) == ep_of(*old(self), n)), //@C11.new_endpoint_starts_unregistered
""", rewrites=[("T-MAP", r"self\.endpoints\s*\.entry\(endpoint_name\.to_string\(\)\)\s*\.or_insert_with\(AccountEndpoint::new\);",
                "crate::shims::eps_entry_or_insert_with(&mut self.endpoints, endpoint_name.to_string(), || -> (e__: AccountEndpoint) ensures e__.account_url@.len() == 0 { AccountEndpoint::new() });", None),
               # the other way of putting a record into the map: H.insert(K, V) replaces whatever was there
               ("T-MAP", r"self\.endpoints\s*\.insert\(endpoint_name\.to_string\(\), (?P<v>[^;]*)\);",
                lambda m: f"crate::shims::eps_insert(&mut self.endpoints, endpoint_name.to_string(), {m.group('v')});", None)])})
    def setter(field, value_spec, label, extra=""):
        others = [f for f in ["creation_date", "account_url", "orders_url", "key_hash", "contacts_hash", "external_account_hash"] if f != field]
        keep = " && ".join(f"n.{f} == o.{f}" for f in others)
        return f"""
    ensures
        // only this endpoint's `{field}` changes: the other endpoints, the keys (current and superseded), the contacts stay as they are
        r is Ok ==> (ep_of(*old(self), endpoint_name@) matches Some(o) && ep_of(*final(self), endpoint_name@) matches Some(n)
            && only_endpoint_changed(*old(self), *final(self), endpoint_name@, n) && {keep} && {value_spec}), //@C11.{label},C04.{label}
        r is Err ==> same_but_endpoints(*old(self), *final(self)) && eps_map(final(self).endpoints) == eps_map(old(self).endpoints), {extra}
"""
    u.verify(A, "Account::set_account_url", "account", props=["C11"], fns={"set_account_url": FnSpec(ret="r", sig=setter("account_url", "n.account_url@ == account_url@", "account_url_stored_for_this_endpoint_only"))})
    u.verify(A, "Account::set_orders_url", "account", props=["C11"], fns={"set_orders_url": FnSpec(ret="r", sig=setter("orders_url", "n.orders_url@ == orders_url@", "orders_url_stored_for_this_endpoint_only"))})
    u.verify(A, "Account::update_key_hash", "account", props=["C11"], fns={"update_key_hash": FnSpec(ret="r", sig=setter("key_hash", "n.key_hash@ == key_fp(old(self).current_key)", "key_fingerprint_refreshed_for_this_endpoint_only"))})
    u.verify(A, "Account::update_contacts_hash", "account", props=["C11"], fns={"update_contacts_hash": FnSpec(ret="r", sig=setter("contacts_hash", "n.contacts_hash@ == contacts_fp(old(self).contacts@)", "contacts_fingerprint_refreshed_for_this_endpoint_only"))})
    u.verify(A, "Account::update_external_account_hash", "account", props=["C11"], fns={"update_external_account_hash": FnSpec(ret="r", sig="""
    ensures
        r is Ok && old(self).external_account is None ==> same_but_endpoints(*old(self), *final(self)) && eps_map(final(self).endpoints) == eps_map(old(self).endpoints),
        r is Ok && old(self).external_account is Some ==> (ep_of(*old(self), endpoint_name@) matches Some(o) && ep_of(*final(self), endpoint_name@) matches Some(n)
            && only_endpoint_changed(*old(self), *final(self), endpoint_name@, n) && n.creation_date == o.creation_date && n.account_url == o.account_url && n.orders_url == o.orders_url
            && n.key_hash == o.key_hash && n.contacts_hash == o.contacts_hash && n.external_account_hash@ == eab_fp(old(self).external_account.unwrap())), //@C11.binding_fingerprint_refreshed_for_this_endpoint_only
        r is Err ==> same_but_endpoints(*old(self), *final(self)) && eps_map(final(self).endpoints) == eps_map(old(self).endpoints),
""")})
    u.verify(A, "Account::synchronize", "account", props=["C11"], fns={"synchronize": FnSpec(ret="r", ghost=True, sig="""
    requires stored_in_step(*old(self), old(endpoint).name@, *old(w)),
    ensures
        // afterwards the CA's record is in line with the configuration, and the stored fingerprints say so
        r is Ok ==> ca_in_step_with_config(*final(self), *final(w)) && stored_in_step(*final(self), final(endpoint).name@, *final(w)), //@C11.ca_record_brought_in_line_with_configuration
        // an account is created only when no account URL is stored, or the external binding changed (or, inside the
        // update requests, when the CA reports the account unknown)
        r is Ok ==> ({
            let ep = ep_of(*old(self), old(endpoint).name@).unwrap();
            let o = old(w).requests; let n = final(w).requests;
            let kc = key_fp(old(self).current_key) != ep.key_hash@;
            let cc = contacts_fp(old(self).contacts@) != ep.contacts_hash@;
            &&& (ep.account_url@.len() == 0 ==> n == o.push(Req::NewAccount))
            &&& (ep.account_url@.len() > 0 && eab_changed(*old(self), ep) ==> n == o.push(Req::NewAccount))
            &&& (ep.account_url@.len() > 0 && !eab_changed(*old(self), ep) ==> ({
                    &&& (!kc && !cc ==> n == o)
                    &&& (kc && !cc ==> n == o.push(Req::KeyChange) || n == o.push(Req::KeyChange).push(Req::NewAccount))
                    &&& (!kc && cc ==> n == o.push(Req::ContactUpdate) || n == o.push(Req::ContactUpdate).push(Req::NewAccount))
                    // both changed: the key roll-over first (signed by the key the CA holds), then the contacts
                    &&& (kc && cc ==> n == o.push(Req::KeyChange).push(Req::ContactUpdate)
                            || n == o.push(Req::KeyChange).push(Req::ContactUpdate).push(Req::NewAccount)
                            || n == o.push(Req::KeyChange).push(Req::NewAccount).push(Req::ContactUpdate)
                            || n == o.push(Req::KeyChange).push(Req::NewAccount).push(Req::ContactUpdate).push(Req::NewAccount))
                }))
        }), //@C11.one_request_per_changed_item_registration_only_when_needed
        // whatever has been changed at the CA has been recorded in the account file
        r is Ok && final(w).requests != old(w).requests ==> final(w).saved == Some(*final(self)), //@C11.account_file_holds_what_has_been_recorded
        final(endpoint).name == old(endpoint).name,
""", rewrites=[("T-CMP", r"(?P<a>external_account_hash|ct_hash|key_hash) (?P<op>!=|==) (?P<b>acc_ep\.\w+)", vec_cmp, 3)])})
    reg_sig = proto_sigs()["register_account"].replace("old(account)", "old(self)").replace("final(account)", "final(self)")
    u.verify(A, "Account::register", "account", props=["C11"], fns={"register": FnSpec(ret="r", ghost=True, sig=reg_sig)})
    u.verify(A, "Account::update_keys", "account", props=["C11"], fns={"update_keys": FnSpec(ret="r", ghost=True, sig="""
    ensures
        // a change of key type or algorithm keeps the old key among the superseded ones (the CA still holds it), makes a
        // new key of the configured type current, and stores that at once
        r is Ok && (old(self).current_key.key.key_type != key_type || old(self).current_key.signature_algorithm != signature_algorithm) ==>
            final(self).past_keys@ == old(self).past_keys@.push(old(self).current_key)
            && final(self).current_key.key.key_type == key_type && final(self).current_key.signature_algorithm == signature_algorithm
            && final(w).saves == old(w).saves + 1 && final(w).saved == Some(*final(self)), //@C11.superseded_key_is_kept_and_saved
        r is Ok && !(old(self).current_key.key.key_type != key_type || old(self).current_key.signature_algorithm != signature_algorithm) ==>
            *final(self) == *old(self) && final(w).saves == old(w).saves, //@C11.unchanged_key_is_left_alone
        final(w).requests == old(w).requests,
""", rewrites=[("T-FMT", r"format!\(\"new \{key_type\} account key created, using \{signature_algorithm\} as signing algorithm\"\)", "crate::opaque_string()")])})
    u.verify(A, "Account::get_past_key", "account", props=["C11", "C04"], fns={"get_past_key": FnSpec(ret="r", sig="""
    ensures r matches Ok(k) ==> self.past_keys@.contains(*k) && key_fp(*k) == key_hash@, //@C11.rollover_is_authorised_by_the_key_with_the_stored_fingerprint,C04.key_change_is_signed_by_the_key_the_ca_has_on_record
        // every superseded key is looked at: the key with the stored fingerprint is found wherever it stands in the list
        (forall|i: int| 0 <= i < self.past_keys@.len() ==> !pem_fails(#[trigger] self.past_keys@[i].key))
            && (exists|i: int| 0 <= i < self.past_keys@.len() && key_fp(#[trigger] self.past_keys@[i]) == key_hash@) ==> r is Ok, //@C11.the_key_the_ca_holds_is_found_among_all_the_superseded_keys,C04.the_key_the_ca_holds_is_found_among_all_the_superseded_keys
""", loops={1: "    invariant key_hash@ == key_hash_0@, forall|j: int| 0 <= j < it.index@ ==> key_fp(#[trigger] self.past_keys@[j]) != key_hash_0@,"}, body_start="let ghost key_hash_0 = key_hash;",
        attrs="#[verifier::loop_isolation(false)]",
        rewrites=[("T-ITER", r"for key in &self\.past_keys", "for key in it: self.past_keys.iter()"),
                  ("T-CMP", r"(?P<a>past_key_hash) (?P<op>!=|==) (?P<b>key_hash)", vec_cmp)])})
    return u


WORLD = """
// Ghost world of one (account, endpoint) pair: what the CA holds, the account requests sent, the saves done.
pub ghost enum Req { NewAccount, ContactUpdate, KeyChange }
pub tracked struct World {
    pub ghost ca_key: Seq<u8>,        // fingerprint of the key the CA has on record for the account
    pub ghost ca_contacts: Seq<u8>,   // fingerprint of the contacts it has on record
    pub ghost ca_eab: Seq<u8>,
    pub ghost requests: Seq<Req>,
    pub ghost saves: nat,
    pub ghost saved: Option<crate::account::Account>,   // the account as last written to its file
    pub ghost ca_unknown: bool,       // the CA's latest answer was `accountDoesNotExist`
}
pub mod shims {
    use vstd::prelude::*;
    use crate::*;
    verus! {
    #[verifier::external_type_specification]
    #[verifier::external_body]
    pub struct ExSystemTime(std::time::SystemTime);
    pub assume_specification [std::time::SystemTime::now] () -> std::time::SystemTime;
    // std::time::SystemTime::UNIX_EPOCH (rule T-CONST-STD)
    #[verifier::external_body]
    pub fn unix_epoch() -> std::time::SystemTime { std::time::SystemTime::UNIX_EPOCH }
    #[derive(Clone, Copy, PartialEq)]
    pub struct KeyType { pub id: u8 }
    #[derive(Clone, Copy, PartialEq)]
    pub struct JwsSignatureAlgorithm { pub id: u8 }
    impl vstd::std_specs::cmp::PartialEqSpecImpl for KeyType {
        open spec fn obeys_eq_spec() -> bool { true }
        open spec fn eq_spec(&self, other: &KeyType) -> bool { *self == *other }
    }
    impl vstd::std_specs::cmp::PartialEqSpecImpl for JwsSignatureAlgorithm {
        open spec fn obeys_eq_spec() -> bool { true }
        open spec fn eq_spec(&self, other: &JwsSignatureAlgorithm) -> bool { *self == *other }
    }
    // acme_common key_type.rs (unit keys): which algorithms go with a key type
    pub uninterp spec fn alg_compatible(k: KeyType, a: JwsSignatureAlgorithm) -> bool;
    pub uninterp spec fn default_alg_of(k: KeyType) -> JwsSignatureAlgorithm;
    impl KeyType {
        #[verifier::external_body]
        pub fn check_alg_compatibility(&self, alg: &JwsSignatureAlgorithm) -> (r: Result<(), crate::acme_common::error::Error>)
            ensures (r is Ok) == alg_compatible(*self, *alg) { unimplemented!() }
        #[verifier::external_body]
        pub fn get_default_signature_alg(&self) -> (r: JwsSignatureAlgorithm)
            ensures r == default_alg_of(*self), alg_compatible(*self, r) { unimplemented!() }
    }
    pub struct KeyPair { pub key_type: KeyType, pub id: Ghost<int> }
    // verified in unit `keys`: a generated key has the requested type
    #[verifier::external_body]
    pub fn gen_keypair(key_type: KeyType) -> (r: Result<KeyPair, crate::acme_common::error::Error>)
        ensures r matches Ok(k) ==> k.key_type == key_type { unimplemented!() }
    #[verifier::external_body]
    pub fn bytes_eq(a: &Vec<u8>, b: &Vec<u8>) -> (r: bool) ensures r == (a@ == b@) { a == b }
    #[verifier::external_body]
    pub fn bytes_ne(a: &Vec<u8>, b: &Vec<u8>) -> (r: bool) ensures r == (a@ != b@) { a != b }
    pub struct FileManager { pub opaque: u8 }
    // HashMap<String, AccountEndpoint> (rule T-MAP): seen as a map from endpoint names
    pub uninterp spec fn eps_map(h: std::collections::HashMap<String, crate::account::AccountEndpoint>) -> Map<Seq<char>, crate::account::AccountEndpoint>;
    // H.get(K)
    #[verifier::external_body]
    pub fn eps_get<'a>(h: &'a std::collections::HashMap<String, crate::account::AccountEndpoint>, k: &str) -> (r: Option<&'a crate::account::AccountEndpoint>)
        ensures match r { Some(e) => eps_map(*h).dom().contains(k@) && *e == eps_map(*h)[k@], None => !eps_map(*h).dom().contains(k@) }
    { h.get(k) }
    // H.get_mut(K): what is written through the returned reference is what the map holds for K afterwards
    #[verifier::external_body]
    pub fn eps_get_mut<'a>(h: &'a mut std::collections::HashMap<String, crate::account::AccountEndpoint>, k: &str) -> (r: Option<&'a mut crate::account::AccountEndpoint>)
        ensures match r {
            Some(e) => eps_map(*old(h)).dom().contains(k@) && *e == eps_map(*old(h))[k@] && eps_map(*final(h)) == eps_map(*old(h)).insert(k@, *final(e)),
            None => !eps_map(*old(h)).dom().contains(k@) && eps_map(*final(h)) == eps_map(*old(h)) }
    { h.get_mut(k) }
    // H.entry(K).or_insert_with(F): an absent key gets F's value, a present one is left alone
    #[verifier::external_body]
    pub fn eps_entry_or_insert_with<F: FnOnce() -> crate::account::AccountEndpoint>(h: &mut std::collections::HashMap<String, crate::account::AccountEndpoint>, k: String, f: F)
        requires f.requires(())
        ensures eps_map(*old(h)).dom().contains(k@) ==> eps_map(*final(h)) == eps_map(*old(h)),
            !eps_map(*old(h)).dom().contains(k@) ==> exists|v: crate::account::AccountEndpoint| f.ensures((), v) && eps_map(*final(h)) == eps_map(*old(h)).insert(k@, v),
    { h.entry(k).or_insert_with(f); }
    // H.insert(K, V): the key now has V, whatever it had
    #[verifier::external_body]
    pub fn eps_insert(h: &mut std::collections::HashMap<String, crate::account::AccountEndpoint>, k: String, v: crate::account::AccountEndpoint)
        ensures eps_map(*final(h)) == eps_map(*old(h)).insert(k@, v),
    { h.insert(k, v); }
    pub struct Directory { pub new_account: String, pub key_change: String }
    pub struct Endpoint { pub name: String, pub dir: Directory, pub tos_agreed: bool }
    }
}
"""

SPEC = """
// fingerprints (SHA-256 of the public key PEM / of the contact list / of the binding key and identifier): uninterpreted
// hash_key: SHA-256 of the PEM of the public key - a function of the key pair only
pub uninterp spec fn sha256(m: Seq<u8>) -> Seq<u8>;
pub uninterp spec fn pub_pem(k: KeyPair) -> Seq<u8>;                       // PEM of the public key
pub uninterp spec fn contact_text(c: contact::AccountContact) -> Seq<char>; // Display of a contact: `<type>:<value>`
pub uninterp spec fn concat(t: Seq<Seq<char>>) -> Seq<char>;                // Vec<String>::join("")
pub open spec fn kp_fp(k: KeyPair) -> Seq<u8> { sha256(pub_pem(k)) }
// OpenSSL cannot write this key's public half as PEM (the only way hash_key fails)
pub uninterp spec fn pem_fails(k: KeyPair) -> bool;
pub open spec fn key_fp(k: AccountKey) -> Seq<u8> { kp_fp(k.key) }
// the fingerprint of a contact list covers every contact, in order; that of a binding its key and its identifier
pub open spec fn contacts_fp(c: Seq<contact::AccountContact>) -> Seq<u8> {
    sha256(crate::utf8_bytes(concat(c.map_values(|x: contact::AccountContact| contact_text(x)))))
}
pub open spec fn eab_fp(e: ExternalAccount) -> Seq<u8> { sha256(e.key@ + crate::utf8_bytes(e.identifier@)) }
// the per-endpoint records of an account (HashMap<String, AccountEndpoint> seen as a map from endpoint names)
pub open spec fn ep_of(a: Account, name: Seq<char>) -> Option<AccountEndpoint> {
    if eps_map(a.endpoints).dom().contains(name) { Some(eps_map(a.endpoints)[name]) } else { None }
}
// everything of an account except its per-endpoint records
pub open spec fn same_but_endpoints(a: Account, b: Account) -> bool {
    a.name == b.name && a.contacts == b.contacts && a.current_key == b.current_key && a.past_keys == b.past_keys
    && a.external_account == b.external_account && a.file_manager == b.file_manager
}
// b is a with the record of endpoint `name` replaced by `ep` (every other endpoint, and everything else, untouched)
pub open spec fn only_endpoint_changed(a: Account, b: Account, name: Seq<char>, ep: AccountEndpoint) -> bool {
    same_but_endpoints(a, b) && eps_map(b.endpoints) == eps_map(a.endpoints).insert(name, ep)
}
pub open spec fn eab_changed(a: Account, ep: AccountEndpoint) -> bool {
    a.external_account matches Some(ec) && eab_fp(ec) != ep.external_account_hash@
}
// what is stored for the endpoint describes what the CA holds (true after every successful request + save)
pub open spec fn stored_in_step(a: Account, name: Seq<char>, w: World) -> bool {
    ep_of(a, name) matches Some(ep) ==> (ep.account_url@.len() > 0 ==>
        ep.key_hash@ == w.ca_key && ep.contacts_hash@ == w.ca_contacts)
}
pub open spec fn ca_in_step_with_config(a: Account, w: World) -> bool {
    w.ca_key == key_fp(a.current_key) && w.ca_contacts == contacts_fp(a.contacts@)
}
// one request per changed item, the key roll-over first
pub open spec fn expected_updates(key_changed: bool, contacts_changed: bool) -> Seq<Req> {
    (if key_changed { seq![Req::KeyChange] } else { Seq::<Req>::empty() }) + (if contacts_changed { seq![Req::ContactUpdate] } else { Seq::<Req>::empty() })
}
pub open spec fn same_config(a: Account, b: Account) -> bool {
    a.name == b.name && a.contacts == b.contacts && a.current_key == b.current_key && a.past_keys == b.past_keys && a.external_account == b.external_account
}
"""

STUBS = """
impl Clone for ExternalAccount { #[verifier::external_body] fn clone(&self) -> (r: Self) ensures r == *self { unimplemented!() } }
impl Clone for AccountKey { #[verifier::external_body] fn clone(&self) -> (r: Self) ensures r == *self { unimplemented!() } }
impl AccountKey {
    // account.rs::AccountKey::new
    #[verifier::external_body]
    pub fn new(key_type: KeyType, signature_algorithm: JwsSignatureAlgorithm) -> (r: Result<AccountKey, Error>)
        ensures r matches Ok(k) ==> k.key.key_type == key_type && k.signature_algorithm == signature_algorithm { unimplemented!() }
}
impl Account {
    // account/storage.rs::save (verified in unit acctstore): on success the account file holds this very account
    #[verifier::external_body]
    pub fn save(&self, Tracked(w): Tracked<&mut World>) -> (r: Result<(), Error>)
        ensures final(w).saves <= old(w).saves + 1, r is Ok ==> final(w).saves == old(w).saves + 1 && final(w).saved == Some(*self), final(w).requests == old(w).requests,
            final(w).ca_key == old(w).ca_key, final(w).ca_contacts == old(w).ca_contacts, final(w).ca_eab == old(w).ca_eab { unimplemented!() }
}
// HashFunction::Sha256.hash(M)
#[verifier::external_body]
pub fn sha256_hash(m: &[u8]) -> (r: Vec<u8>)
    ensures r@ == sha256(m@),
        // (the same for a message spelled as a concatenation: sequences that agree element by element are one sequence)
        forall|a: Seq<u8>, b: Seq<u8>| m@ =~= a + b ==> r@ == #[trigger] sha256(a + b)
{ unimplemented!() }
impl KeyPair {
    #[verifier::external_body]
    pub fn public_key_to_pem(&self) -> (r: Result<Vec<u8>, Error>) ensures r matches Ok(v) ==> v@ == pub_pem(*self), (r is Err) == pem_fails(*self) { unimplemented!() }
}
#[verifier::external_body]
pub broadcast proof fn axiom_contact_to_string(c: &contact::AccountContact, r: String)
    ensures #[trigger] vstd::string::to_string_from_display_ensures::<contact::AccountContact>(c, r) ==> r@ == contact_text(*c) {}
// V.iter().map(F).collect::<Vec<String>>().join("")   (rule T-ITER): when what F gives for each element is determined, their concatenation
#[verifier::external_body]
pub fn texts_joined<T, F: Fn(&T) -> String>(v: &[T], f: F) -> (r: String)
    requires forall|i: int| 0 <= i < v@.len() ==> f.requires((&#[trigger] v@[i],)),
    ensures forall|t: Seq<Seq<char>>| t.len() == v@.len()
        && (forall|i: int, s: String| 0 <= i < v@.len() && #[trigger] f.ensures((&v@[i],), s) ==> s@ == t[i]) ==> r@ == #[trigger] concat(t)
{ unimplemented!() }
pub assume_specification [std::string::String::into_bytes] (s: String) -> (r: Vec<u8>) ensures r@ == crate::utf8_bytes(s@);

"""

# the three account requests (acme_proto/account.rs) as contracts over what the CA holds; *verified* in unit acctproto,
# used here as the callee contracts of synchronize (same text, see PROTO_SIG)
PROTO_STUBS = """
// ---- the three account requests (acme_proto/account.rs), as contracts over what the CA holds.
// Every request except newAccount is signed by a key: the CA accepts it only if that is the key it has on record.
#[verifier::external_body]
pub fn register_account(endpoint: &mut Endpoint, account: &mut Account, Tracked(w): Tracked<&mut World>) -> (r: Result<(), Error>)
    requires
        // an account is created only when no account URL is stored for the endpoint, the external binding changed, or the CA reports the account unknown
        old(w).ca_unknown || (ep_of(*old(account), old(endpoint).name@) matches Some(ep) ==> ep.account_url@.len() == 0 || eab_changed(*old(account), ep)), //@C11.account_created_only_when_needed
    ensures final(endpoint).name == old(endpoint).name, same_config(*final(account), *old(account)),
        r is Ok ==> final(w).saved == Some(*final(account)), //@C11.account_file_holds_what_has_been_recorded
        r is Ok ==> final(w).requests == old(w).requests.push(Req::NewAccount)
            && ca_in_step_with_config(*final(account), *final(w)) && stored_in_step(*final(account), final(endpoint).name@, *final(w))
            && (ep_of(*final(account), final(endpoint).name@) matches Some(ep) && ep.account_url@.len() > 0),
{ unimplemented!() }
#[verifier::external_body]
pub fn update_account_contacts(endpoint: &mut Endpoint, account: &mut Account, Tracked(w): Tracked<&mut World>) -> (r: Result<(), Error>)
    requires
        // signed with the account's current key: that must be the key the CA has on record
        key_fp(old(account).current_key) == old(w).ca_key, //@C11.contact_update_is_signed_by_the_key_the_ca_holds,C04.contact_update_is_signed_by_the_key_the_ca_holds
        // only for an account that is registered on this endpoint, once its key is in step
        ep_of(*old(account), old(endpoint).name@) matches Some(ep) && ep.account_url@.len() > 0 && ep.key_hash@ == old(w).ca_key,
    ensures final(endpoint).name == old(endpoint).name, same_config(*final(account), *old(account)),
        r is Ok ==> final(w).saved == Some(*final(account)), //@C11.account_file_holds_what_has_been_recorded
        r is Ok ==> (final(w).requests == old(w).requests.push(Req::ContactUpdate)
                || final(w).requests == old(w).requests.push(Req::ContactUpdate).push(Req::NewAccount)), //@C11.contact_update_is_one_request
        r is Ok ==> final(w).ca_contacts == contacts_fp(final(account).contacts@) && final(w).ca_key == key_fp(final(account).current_key), //@C11.ca_holds_the_configured_contacts_afterwards
        r is Ok ==> stored_in_step(*final(account), final(endpoint).name@, *final(w)), //@C11.stored_fingerprints_describe_the_ca
        r is Ok ==> (ep_of(*final(account), final(endpoint).name@) matches Some(ep) && ep.account_url@.len() > 0),
{ unimplemented!() }
#[verifier::external_body]
pub fn update_account_key(endpoint: &mut Endpoint, account: &mut Account, Tracked(w): Tracked<&mut World>) -> (r: Result<(), Error>)
    requires
        // the roll-over is authorised by the superseded key whose fingerprint is stored: that must be the key the CA holds
        ep_of(*old(account), old(endpoint).name@) matches Some(ep) && ep.key_hash@ == old(w).ca_key, //@C11.key_rollover_is_authorised_by_the_key_the_ca_holds
        ep_of(*old(account), old(endpoint).name@) matches Some(ep) && ep.account_url@.len() > 0,
    ensures final(endpoint).name == old(endpoint).name, same_config(*final(account), *old(account)),
        r is Ok ==> final(w).saved == Some(*final(account)), //@C11.account_file_holds_what_has_been_recorded
        r is Ok ==> (final(w).requests == old(w).requests.push(Req::KeyChange)
                || final(w).requests == old(w).requests.push(Req::KeyChange).push(Req::NewAccount)), //@C11.key_change_is_one_request
        r is Ok ==> final(w).ca_key == key_fp(final(account).current_key), //@C11.ca_holds_the_current_key_afterwards
        r is Ok ==> (final(w).requests.len() == old(w).requests.len() + 1 ==> final(w).ca_contacts == old(w).ca_contacts
                    && (ep_of(*final(account), final(endpoint).name@) matches Some(ep2) && ep_of(*old(account), old(endpoint).name@) matches Some(ep1)
                        && ep2.contacts_hash == ep1.contacts_hash && ep2.key_hash@ == final(w).ca_key && ep2.account_url == ep1.account_url)), //@C11.key_change_touches_the_key_only
        r is Ok ==> (final(w).requests.len() != old(w).requests.len() + 1 ==> ca_in_step_with_config(*final(account), *final(w))),
        r is Ok ==> (final(w).requests.len() != old(w).requests.len() + 1 ==> stored_in_step(*final(account), final(endpoint).name@, *final(w))),
        r is Ok ==> (ep_of(*final(account), final(endpoint).name@) matches Some(ep) && ep.account_url@.len() > 0),
{ unimplemented!() }
"""


def proto_sigs():
    """the requires/ensures text of the three protocol contracts (shared with unit acctproto, which proves them)"""
    import re
    out = {}
    for m in re.finditer(r"pub fn (\w+)\(endpoint: &mut Endpoint, account: &mut Account, Tracked\(w\): Tracked<&mut World>\) -> \(r: Result<\(\), Error>\)\n(?P<sig>.*?)\{ unimplemented!\(\) \}", PROTO_STUBS, re.S):
        out[m.group(1)] = m.group("sig")
    assert set(out) == {"register_account", "update_account_contacts", "update_account_key"}
    return out
