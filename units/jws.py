"""U9 - JWS construction (acmed/src/jws.rs).  Serves C04."""
from unit import Unit, FnSpec, fmt_to_cat

J = "acmed/src/jws.rs"


def build():
    u = Unit("jws", "acmed")
    u.prelude("err", "stdx", "time", "json")
    u.drop_derives = {"Debug", "Clone", "Copy", "PartialEq"}
    u.module("acx", "use crate::*;\nuse crate::acme_common::error::Error;")
    u.take("acme_common/src/crypto/jws_signature_algorithm.rs", "JwsSignatureAlgorithm", "acx")
    u.take("acme_common/src/crypto.rs", "BaseHashFunction", "acx")
    u.raw("acx", ACX, trusted=True)
    u.module("jws", "use crate::*;\nuse crate::vb64::*;\nuse crate::acx::{HashFunction, JwsSignatureAlgorithm, KeyPair};\n"
             "use crate::acme_common::error::Error;\nuse crate::serde_json;\nuse crate::serde_json::value::Value;")
    u.take(J, "JwsData", "jws")
    u.take(J, "JwsProtectedHeader", "jws")
    u.raw("jws", SPEC)
    def fmt_rw(m):
        e = fmt_to_cat(m.group("f"))
        if e is None:
            raise Exception("T-FMT: format string outside the supported shape")
        return "let signing_input = " + e
    fmt = ("T-FMT", r"let signing_input = format!\((?P<f>\"[^\"]*\")\)", fmt_rw)
    u.verify(J, "get_jws_data", "jws", props=["C04", "C15"], fns={"get_jws_data": FnSpec(ret="r", sig="""
    ensures r matches Ok(s) ==> is_jws(s@, KeyOrMac::Key(*key_pair), *sign_alg, protected@, payload@), //@C04.flattened_jws_signed_over_protected_dot_payload,C15.flattened_jws_signed_over_protected_dot_payload
""", rewrites=[fmt,
               ("T-B64", r"b64_encode\(protected\)", "crate::vb64::b64_encode_str(protected)"),
               ("T-B64", r"b64_encode\(payload\)", "crate::vb64::b64_encode_bytes(payload)"),
               ("T-B64", r"b64_encode\(&signature\)", "crate::vb64::b64_encode_bytes(&signature)"),
               ("T-STR", r"signing_input\.as_bytes\(\)", "crate::vb64::str_as_bytes(&signing_input)")])})
    u.verify(J, "encode_jwk", "jws", props=["C04", "C15"], fns={"encode_jwk": FnSpec(ret="r", sig="""
    ensures
        // account creation / key-change inner object: the public key travels as jwk, there is no kid
        r matches Ok(s) ==> exists|h: JwsProtectedHeader| h.alg@ == crate::acx::alg_name(*sign_alg)
            && (h.jwk matches Some(j) && crate::acx::jwk_of(*key_pair, j)) && h.kid is None && h.nonce == nonce && h.url@ == url@
            && is_jws(s@, KeyOrMac::Key(*key_pair), *sign_alg, serde_json::ser_spec(h), payload@), //@C04.jwk_header,C15.jwk_header
""", at=[("after_stmt_re", r"let (\w+) = JwsProtectedHeader \{", 1, "let ghost protected_hdr__ = $1;")])})
    u.verify(J, "encode_kid", "jws", props=["C04", "C15"], fns={"encode_kid": FnSpec(ret="r", sig="""
    ensures
        // every other request: the account URL travels as kid, the nonce and the exact URL are in the header, there is no jwk
        r matches Ok(s) ==> exists|h: JwsProtectedHeader| h.alg@ == crate::acx::alg_name(*sign_alg) && h.jwk is None
            && (h.kid matches Some(k) && k@ == key_id@) && (h.nonce matches Some(n) && n@ == nonce@) && h.url@ == url@
            && is_jws(s@, KeyOrMac::Key(*key_pair), *sign_alg, serde_json::ser_spec(h), payload@), //@C04.kid_header,C15.kid_header
""", at=[("after_stmt_re", r"let (\w+) = JwsProtectedHeader \{", 1, "let ghost protected_hdr__ = $1;")])})
    u.verify(J, "encode_kid_mac", "jws", props=["C04", "C15"], fns={"encode_kid_mac": FnSpec(ret="r", sig="""
    ensures
        // external account binding: HMAC with the hash matching the HS algorithm, kid, no nonce
        r matches Ok(s) ==> (*sign_alg is Hs256 || *sign_alg is Hs384 || *sign_alg is Hs512) && exists|h: JwsProtectedHeader|
            h.alg@ == crate::acx::alg_name(*sign_alg) && h.jwk is None && (h.kid matches Some(k) && k@ == key_id@) && h.nonce is None && h.url@ == url@
            && is_jws(s@, KeyOrMac::Mac(key@), *sign_alg, serde_json::ser_spec(h), payload@), //@C04.eab_mac_header,C15.eab_mac_header
""", rewrites=[fmt,
               ("T-B64", r"b64_encode\(&protected\)", "crate::vb64::b64_encode_str(&protected)"),
               ("T-B64", r"b64_encode\(payload\)", "crate::vb64::b64_encode_bytes(payload)"),
               ("T-B64", r"b64_encode\(&signature\)", "crate::vb64::b64_encode_bytes(&signature)"),
               ("T-STR", r"signing_input\.as_bytes\(\)", "crate::vb64::str_as_bytes(&signing_input)")],
        at=[("after_stmt_re", r"let (\w+) = JwsProtectedHeader \{", 1, "let ghost protected_hdr__ = $1;"),
            ("after_stmt_re", r"let (\w+) = serde_json::to_string\(&\w+\)\?;", 1, "let ghost protected_json__ = $1@;")])})
    return u


ACX = """
// acmed's view of acme_common::crypto (the enums above are the real ones; the operations are contracts)
pub type HashFunction = BaseHashFunction;
pub struct KeyPair { pub id: Ghost<int> }
pub uninterp spec fn alg_name(a: JwsSignatureAlgorithm) -> Seq<char>;      // its Display text (table proved in unit keys)
pub uninterp spec fn jwk_of(k: KeyPair, j: crate::serde_json::value::Value) -> bool;
// sig is a signature of msg under key k with algorithm a (ECDSA is randomised, so this is a relation)
pub uninterp spec fn valid_sig(k: KeyPair, a: JwsSignatureAlgorithm, msg: Seq<u8>, sig: Seq<u8>) -> bool;
pub uninterp spec fn hmac_spec(h: HashFunction, key: Seq<u8>, msg: Seq<u8>) -> Seq<u8>;
#[verifier::external_body]
pub broadcast proof fn axiom_alg_to_string(a: &JwsSignatureAlgorithm, r: String)
    ensures #[trigger] vstd::string::to_string_from_display_ensures::<JwsSignatureAlgorithm>(a, r) ==> r@ == alg_name(*a) {}
impl std::fmt::Display for JwsSignatureAlgorithm {
    #[verifier::external_body]
    fn fmt(&self, f: &mut std::fmt::Formatter) -> std::fmt::Result { unimplemented!() }
}
impl KeyPair {
    #[verifier::external_body]
    pub fn sign(&self, alg: &JwsSignatureAlgorithm, data: &[u8]) -> (r: Result<Vec<u8>, Error>)
        ensures r matches Ok(v) ==> valid_sig(*self, *alg, data@, v@) { unimplemented!() }
    #[verifier::external_body]
    pub fn jwk_public_key(&self) -> (r: Result<crate::serde_json::value::Value, Error>)
        ensures r matches Ok(j) ==> jwk_of(*self, j) { unimplemented!() }
}
impl BaseHashFunction {
    #[verifier::external_body]
    pub fn hmac(&self, key: &[u8], data: &[u8]) -> (r: Result<Vec<u8>, Error>)
        ensures r matches Ok(v) ==> v@ == hmac_spec(*self, key@, data@) { unimplemented!() }
}
"""

SPEC = """
broadcast use {crate::acx::axiom_alg_to_string, vstd::string::to_string_from_display_ensures_for_str};
pub ghost enum KeyOrMac { Key(KeyPair), Mac(Seq<u8>) }
pub open spec fn hs_hash(a: JwsSignatureAlgorithm) -> HashFunction {
    match a { JwsSignatureAlgorithm::Hs256 => HashFunction::Sha256, JwsSignatureAlgorithm::Hs384 => HashFunction::Sha384, _ => HashFunction::Sha512 }
}
// RFC 7515 flattened JSON serialisation: {"protected": b64(header), "payload": b64(payload), "signature": b64(sig)}
// with sig computed over ASCII(b64(header) || '.' || b64(payload))
pub open spec fn is_jws(s: Seq<char>, k: KeyOrMac, a: JwsSignatureAlgorithm, protected_json: Seq<char>, payload: Seq<u8>) -> bool {
    let p = b64url(utf8(protected_json));
    let q = b64url(payload);
    let input = utf8(p + "."@ + q);
    exists|d: JwsData, sig: Seq<u8>| d.protected@ == p && d.payload@ == q && d.signature@ == b64url(sig) && s == serde_json::ser_spec(d)
        && (match k { KeyOrMac::Key(kp) => crate::acx::valid_sig(kp, a, input, sig), KeyOrMac::Mac(key) => sig == crate::acx::hmac_spec(hs_hash(a), key, input) })
}
pub open spec fn alg_string(a: JwsSignatureAlgorithm) -> String { choose|s: String| s@ == crate::acx::alg_name(a) }
pub open spec fn url_string(u: Seq<char>) -> String { choose|s: String| s@ == u }
"""
