"""account persistence: acmed/src/account/storage.rs (fetch / save and the conversions between an account and its stored
form) and Account::load (acmed/src/account.rs).  Serves C11: everything an account needs survives a restart exactly; a
truncated or unreadable account file is an error, never a fresh identity."""
import re
from unit import Unit, FnSpec

S = "acmed/src/account/storage.rs"
A = "acmed/src/account.rs"

# X.iter().map(F).collect[::<T>]()  ->  a helper whose contract is element-wise; a closure F keeps its real body and gets
# the ensures clause the chain's consumer relies on (checked against that body)
CHAIN = r"(?P<x>\w+(?:\s*\.\s*\w+)*?)\s*\.iter\(\)\s*\.map\(\s*(?:\|(?P<p>[^|]*)\|\s*(?P<body>.*?)|(?P<fn>[\w:]+))\s*\)\s*\.collect(?:::<(?P<t>[^;]*?)>)?\(\)"

# receiver (last path segment) -> (helper, closure head with its ensures), per function
CLOSURES = {
    ("do_fetch", "endpoints"): ("map_strmap", "|{a}: &String, {b}: &AccountEndpointStorage| -> (r__: (String, AccountEndpoint)) ensures r__.0@ == {a}@ && ep_rel(*{b}, r__.1)"),
    ("do_fetch", "contacts"): ("try_map_vec", "|p__: &(String, String)| -> (r__: Result<AccountContact, Error>) ensures r__ matches Ok(c__) ==> contact_rel(*p__, c__)"),
    ("do_fetch", "past_keys"): ("try_map_vec", "|{a}: &AccountKeyStorage| -> (r__: Result<AccountKey, Error>) ensures r__ matches Ok(k__) ==> key_rel(*{a}, k__)"),
    ("do_save", "endpoints"): ("map_strmap", "|{a}: &String, {b}: &AccountEndpoint| -> (r__: (String, AccountEndpointStorage)) ensures r__.0@ == {a}@ && ep_rel(r__.1, *{b})"),
    ("do_save", "contacts"): ("map_vec", "|{a}: &AccountContact| -> (r__: (String, String)) ensures contact_rel(r__, *{a})"),
    ("load", "contacts"): ("try_map_vec", "|p__: &(String, String)| -> (r__: Result<contact::AccountContact, Error>) ensures r__ matches Ok(c__) ==> crate::account::storage::contact_rel(*p__, c__)"),
}


def chain_rw(fname):
    def rw(m):
        recv = "".join(m.group("x").split())
        last = recv.split(".")[-1]
        fallible = bool(m.group("t")) and "Result" in m.group("t")
        if m.group("fn"):
            helper = "try_map_vec" if fallible else "map_vec"
            return f"crate::shims::{helper}(&{recv}, {m.group('fn')})"
        key = (fname, last)
        if key not in CLOSURES:
            return m.group(0)
        helper, head = CLOSURES[key]
        params = [x.strip() for x in m.group("p").strip().strip("()").split(",")]
        body = m.group("body").strip()
        if m.group("p").strip().startswith("("):
            if helper == "map_strmap":
                head = head.format(a=params[0], b=params[1])
            else:
                # a tuple pattern over the elements of a Vec<(A, B)>
                body = f"let ({params[0]}, {params[1]}) = (&p__.0, &p__.1); {body}"
        else:
            head = head.format(a=params[0], b="")
        return f"crate::shims::{helper}(&{recv}, {head} {{ {body} }})"
    return ("T-ITER", CHAIN, rw, None)


STORED = """
        // what the file holds reads back as this very account: name, every endpoint's URLs and fingerprints, contacts, the
        // current and every superseded key with its algorithm and date, the external binding"""


def build():
    u = Unit("acctstore", "acmed")
    u.prelude("err", "log", "stdx", "time")
    u.raw("", WORLD, trusted=True)
    for f in ["account_files_exists", "get_account_data", "set_account_data"]:
        u.ghost_call(f, quals=("",))
    for f in ["do_fetch", "do_save", "fetch", "save"]:
        u.ghost_call(f, quals=("", "storage"))
    u.ghost_call("update_keys", method=True)
    u.ghost_call("load", quals=("Account", "Self"))
    u.drop_derives = {"Debug", "Clone", "Hash", "PartialEq", "Serialize", "Deserialize"}
    u.module("logs", "")
    u.take("acmed/src/logs.rs", "HasLogger", "logs")
    u.module("account", "use crate::*;\nuse crate::shims::*;\nuse crate::logs::HasLogger;\nuse crate::acme_common::error::Error;\n"
             "use std::collections::HashMap;\nuse std::time::SystemTime;")
    u.module("account::contact", "use crate::shims::*;\nuse crate::acme_common::error::Error;")
    u.raw("account::contact", CONTACT, trusted=True)
    for t in ["ExternalAccount", "AccountKey", "AccountEndpoint", "Account"]:
        u.take(A, t, "account")
    u.verify(A, "impl HasLogger for Account", "account", props=["C11"])
    u.raw("account", ACCOUNT_STUBS, trusted=True)
    u.module("account::storage", "use crate::*;\nuse crate::shims::*;\nuse crate::account::contact::AccountContact;\n"
             "use crate::account::{Account, AccountEndpoint, AccountKey, ExternalAccount};\nuse crate::acme_common::error::Error;\n"
             "use std::collections::HashMap;\nuse std::time::SystemTime;")
    for t in ["ExternalAccountStorage", "AccountKeyStorage", "AccountEndpointStorage", "AccountStorage"]:
        u.take(S, t, "account::storage")
    u.raw("account::storage", "broadcast use crate::shims::group_store;")
    u.raw("account::storage", SPEC)
    PARSE = ("T-PARSE", r"(?P<e>[\w.]+)\.parse\(\)", r"crate::shims::parse_text(&\g<e>)", None)
    u.verify(S, "impl ExternalAccountStorage", "account::storage", props=["C11"], fns={
        "new": FnSpec(ret="r", sig="    ensures eab_rel(r, *external_account), //@C11.binding_is_stored_whole\n"),
        "to_generic": FnSpec(ret="r", sig="    ensures r matches Ok(e) ==> eab_rel(*self, e), //@C11.binding_is_read_back_whole,C04.binding_is_read_back_whole\n", rewrites=[PARSE])})
    u.verify(S, "impl AccountKeyStorage", "account::storage", props=["C11"], fns={
        "new": FnSpec(ret="r", sig="    ensures r matches Ok(s) ==> key_rel(s, *key), //@C11.key_is_stored_with_its_date_and_algorithm\n"),
        "to_generic": FnSpec(ret="r", sig="    ensures r matches Ok(k) ==> key_rel(*self, k), //@C11.key_is_read_back_with_its_date_and_algorithm,C04.key_is_read_back_with_its_date_and_algorithm\n", rewrites=[PARSE])})
    u.verify(S, "impl AccountEndpointStorage", "account::storage", props=["C11"], fns={
        "new": FnSpec(ret="r", sig="    ensures ep_rel(r, *account_endpoint), //@C11.endpoint_record_is_stored_whole\n"),
        "to_generic": FnSpec(ret="r", sig="    ensures ep_rel(*self, r), //@C11.endpoint_record_is_read_back_whole,C04.endpoint_record_is_read_back_whole\n")})
    BYTES = ("T-BYTES", r"&(?P<v>\w+)\[\.\.\]", r"\g<v>.as_slice()", None)
    u.verify(S, "do_fetch", "account::storage", props=["C11"], fns={"do_fetch": FnSpec(ret="r", ghost=True, sig=FETCH_SIG,
             rewrites=[chain_rw("do_fetch"), BYTES])})
    u.verify(S, "do_save", "account::storage", props=["C11"], fns={"do_save": FnSpec(ret="r", ghost=True, sig=SAVE_SIG,
             rewrites=[chain_rw("do_save"),
                       ("T-ITER", r"(?P<x>\w+(?:\s*\.\s*\w+)*?)\s*\.as_ref\(\)\s*\.map\((?P<fn>[\w:]+)\)", lambda m: f"crate::shims::opt_map(&{chr(0).join(m.group(chr(120)).split()).replace(chr(0), str())}, {m.group(2)})", None)],
             at=[("before_tail", None, 1, "proof { assert(stored_as(*account, account_storage)); } //@C11.account_file_holds_the_whole_account")])})
    u.verify(S, "fetch", "account::storage", props=["C11"], fns={"fetch": FnSpec(ret="r", ghost=True, sig=FETCH_SIG)})
    u.verify(S, "save", "account::storage", props=["C11"], fns={"save": FnSpec(ret="r", ghost=True, sig=SAVE_SIG)})
    u.raw("account::storage", LEMMA)
    u.ghost_call("save", method=True)
    u.verify(A, "Account::save", "account", props=["C11"], fns={"save": FnSpec(ret="r", ghost=True, sig="""
    ensures final(w).saves <= old(w).saves + 1, r is Ok ==> final(w).saves == old(w).saves + 1,
        // the account file is written in this account's own directory and holds this very account
        r is Ok ==> (final(w).file matches Some(b) && crate::bincode::dec::<crate::account::storage::AccountStorage>(b) matches Some(s)
            && crate::account::storage::stored_as(*self, s)), //@C11.account_file_holds_the_whole_account
""")})
    u.verify(A, "Account::load", "account", props=["C11"], fns={"load": FnSpec(ret="r", ghost=True, sig=LOAD_SIG,
             rewrites=[chain_rw("load"), ("T-MAP", r"HashMap::new\(\)", "crate::shims::new_strmap()", None), ("T-PARSE", r"(?P<e>\bkt|\bsa)\.parse\(\)", r"crate::shims::parse_text(\g<e>)", None)])})
    return u


FETCH_SIG = """
    ensures final(w).file == old(w).file, final(w).saves == old(w).saves,
        // an account file that cannot be read back whole (truncated, damaged) is an error - never "no account yet"
        old(w).file is Some ==> !(r matches Ok(None)), //@C11.an_unreadable_account_file_is_an_error_never_a_fresh_identity
        r matches Ok(Some(a)) ==> (old(w).file matches Some(b) && crate::bincode::dec::<AccountStorage>(b) matches Some(s) && stored_as(a, s)
            && a.file_manager == *file_manager), //@C11.loaded_account_is_the_stored_one
        old(w).file is None ==> r matches Ok(None), //@C11.no_account_file_means_no_account_yet
"""

SAVE_SIG = """
    ensures final(w).saves <= old(w).saves + 1, r is Ok ==> final(w).saves == old(w).saves + 1,""" + STORED + """
        r is Ok ==> (final(w).file matches Some(b) && crate::bincode::dec::<AccountStorage>(b) matches Some(s) && stored_as(*account, s)), //@C11.account_file_holds_the_whole_account
"""

LOAD_SIG = """
    ensures
        // an existing account file is either loaded or an error: the stored identity (endpoint records, current and
        // superseded keys) is never replaced by a fresh one
        old(w).file matches Some(b) ==> (r matches Ok(a) ==> (crate::bincode::dec::<crate::account::storage::AccountStorage>(b) matches Some(s)
            && crate::account::storage::identity_kept(s, a, key_type_of(*key_type), alg_of(*signature_algorithm, *key_type)))), //@C11.stored_identity_is_never_replaced_by_load
        // without an account file: a fresh, unregistered account with a key of the configured type
        old(w).file is None ==> (r matches Ok(a) ==> smap(a.endpoints).dom() =~= Set::<Seq<char>>::empty() && a.past_keys@.len() == 0
            && key_type_of(*key_type) == Some(a.current_key.key.key_type)), //@C11.fresh_account_only_without_an_account_file
        r matches Ok(a) ==> a.external_account == *external_account && a.name@ == a.name@,
        // whatever was stored, the account handed to the daemon signs with a key of the configured type and algorithm - the
        // documented defaults when the configuration names none (an edit that removes the setting is an edit like any other)
        r matches Ok(a) ==> key_type_of(*key_type) == Some(a.current_key.key.key_type)
            && alg_of(*signature_algorithm, *key_type) == Some(a.current_key.signature_algorithm), //@C11.loaded_account_has_a_key_of_the_configured_type_and_algorithm
"""

WORLD = """
// Ghost world: the account file (absent, or its content) and the number of times it has been written.
pub tracked struct World {
    pub ghost file: Option<Seq<u8>>,
    pub ghost saves: nat,
}
pub const DEFAULT_ACCOUNT_KEY_TYPE: crate::shims::KeyType = crate::shims::KeyType { id: 2 };
// bincode 1.x (serialize / deserialize with the default options): a deterministic, self-delimiting encoding
pub mod bincode {
    use vstd::prelude::*;
    verus! {
    pub struct BinError { pub opaque: u8 }
    impl BinError { #[verifier::external_body] pub fn to_string(&self) -> String { unimplemented!() } }
    pub uninterp spec fn enc<T>(t: T) -> Seq<u8>;
    pub uninterp spec fn dec<T>(b: Seq<u8>) -> Option<T>;
    // what has been encoded decodes to the same value
    #[verifier::external_body]
    pub broadcast proof fn axiom_roundtrip<T>(t: T) ensures #[trigger] dec::<T>(enc(t)) == Some(t) {}
    // a proper beginning of an encoding is not an encoding: the decoder runs out of input (every truncation point)
    #[verifier::external_body]
    pub proof fn axiom_truncated<T>(t: T, n: int) requires 0 <= n < enc(t).len() ensures dec::<T>(enc(t).take(n)) is None {}
    #[verifier::external_body]
    pub fn serialize<T>(t: &T) -> (r: Result<Vec<u8>, BinError>) ensures r matches Ok(v) ==> v@ == enc(*t) { unimplemented!() }
    #[verifier::external_body]
    pub fn deserialize<T>(b: &[u8]) -> (r: Result<T, BinError>)
        ensures match r { Ok(t) => dec::<T>(b@) == Some(t), Err(_) => dec::<T>(b@) is None } { unimplemented!() }
    }
}
pub mod shims {
    use vstd::prelude::*;
    use crate::*;
    use crate::acme_common::error::Error;
    use std::collections::HashMap;
    verus! {
    #[verifier::external_type_specification]
    #[verifier::external_body]
    pub struct ExSystemTime(std::time::SystemTime);
    pub assume_specification [std::time::SystemTime::now] () -> std::time::SystemTime;
    pub assume_specification [<std::time::SystemTime as Clone>::clone] (t: &std::time::SystemTime) -> (r: std::time::SystemTime) ensures r == *t;
    #[derive(Clone, Copy, PartialEq)]
    pub struct KeyType { pub id: u8 }
    #[derive(Clone, Copy, PartialEq)]
    pub struct JwsSignatureAlgorithm { pub id: u8 }
    impl vstd::std_specs::cmp::PartialEqSpecImpl for KeyType {
        open spec fn obeys_eq_spec() -> bool { true }
        open spec fn eq_spec(&self, other: &KeyType) -> bool { *self == *other }
    }
    impl vstd::std_specs::cmp::PartialEqSpecImpl for JwsSignatureAlgorithm {
        open spec fn obeys_eq_spec() -> bool { true }
        open spec fn eq_spec(&self, other: &JwsSignatureAlgorithm) -> bool { *self == *other }
    }
    // text forms (Display / FromStr of acme_common): what `to_string` writes, `parse` reads back as the same value
    pub uninterp spec fn alg_parse(s: Seq<char>) -> Option<JwsSignatureAlgorithm>;
    pub uninterp spec fn kt_parse(s: Seq<char>) -> Option<KeyType>;
    pub uninterp spec fn default_alg(k: KeyType) -> JwsSignatureAlgorithm;
    impl JwsSignatureAlgorithm {
        #[verifier::external_body]
        pub fn to_string(&self) -> (r: String) ensures alg_parse(r@) == Some(*self) { unimplemented!() }
    }
    impl KeyType {
        #[verifier::external_body]
        pub fn get_default_signature_alg(&self) -> (r: JwsSignatureAlgorithm) ensures r == default_alg(*self) { unimplemented!() }
        #[verifier::external_body]
        pub fn check_alg_compatibility(&self, alg: &JwsSignatureAlgorithm) -> (r: Result<(), Error>) { unimplemented!() }
    }
    pub trait FromText: Sized { spec fn parses(s: Seq<char>, t: Self) -> bool; }
    impl FromText for JwsSignatureAlgorithm { open spec fn parses(s: Seq<char>, t: Self) -> bool { alg_parse(s) == Some(t) } }
    impl FromText for KeyType { open spec fn parses(s: Seq<char>, t: Self) -> bool { kt_parse(s) == Some(t) } }
    // str::parse::<T>() (rule T-PARSE)
    #[verifier::external_body]
    pub fn parse_text<T: FromText>(s: &str) -> (r: Result<T, Error>) ensures r matches Ok(t) ==> T::parses(s@, t) { unimplemented!() }
    // key pairs and their PKCS#8 DER form: the DER `private_key_to_der` writes is read back by `from_der` as the same key pair
    pub struct KeyPair { pub key_type: KeyType, pub id: Ghost<int> }
    pub uninterp spec fn der_key(b: Seq<u8>) -> Option<KeyPair>;
    impl KeyPair {
        #[verifier::external_body]
        pub fn private_key_to_der(&self) -> (r: Result<Vec<u8>, Error>) ensures r matches Ok(v) ==> der_key(v@) == Some(*self) { unimplemented!() }
        #[verifier::external_body]
        pub fn from_der(b: &[u8]) -> (r: Result<KeyPair, Error>) ensures r matches Ok(k) ==> der_key(b@) == Some(k) { unimplemented!() }
    }
    #[verifier::external_body]
    pub fn gen_keypair(key_type: KeyType) -> (r: Result<KeyPair, Error>) ensures r matches Ok(k) ==> k.key_type == key_type { unimplemented!() }
    pub struct FileManager { pub opaque: u8 }
    impl Clone for FileManager { #[verifier::external_body] fn clone(&self) -> (r: Self) ensures r == *self { unimplemented!() } }
    // storage.rs (unit storage): whether the account file exists, its content, rewriting it with exactly the given bytes
    #[verifier::external_body]
    pub fn account_files_exists(fm: &FileManager, Tracked(w): Tracked<&mut World>) -> (r: bool)
        ensures *final(w) == *old(w), r == (old(w).file is Some) { unimplemented!() }
    #[verifier::external_body]
    pub fn get_account_data(fm: &FileManager, Tracked(w): Tracked<&mut World>) -> (r: Result<Vec<u8>, Error>)
        ensures *final(w) == *old(w), r matches Ok(v) ==> old(w).file == Some(v@) { unimplemented!() }
    #[verifier::external_body]
    pub fn set_account_data(fm: &FileManager, data: &[u8], Tracked(w): Tracked<&mut World>) -> (r: Result<(), Error>)
        ensures final(w).saves == old(w).saves + 1, r is Ok ==> final(w).file == Some(data@) { unimplemented!() }
    pub broadcast group group_store { crate::bincode::axiom_roundtrip }
    // HashMap<String, V> seen as a map from the keys' text
    pub uninterp spec fn smap<V>(h: HashMap<String, V>) -> Map<Seq<char>, V>;
    #[verifier::external_body]
    pub fn new_strmap<V>() -> (r: HashMap<String, V>) ensures smap(r).dom() =~= Set::<Seq<char>>::empty() { unimplemented!() }
    // H.iter().map(|(k, v)| (K', V')).collect() into a HashMap: every entry is mapped; F keeps the key, so no two entries collide
    #[verifier::external_body]
    pub fn map_strmap<V, V2, F: Fn(&String, &V) -> (String, V2)>(h: &HashMap<String, V>, f: F) -> (r: HashMap<String, V2>)
        requires forall|k: &String, v: &V| f.requires((k, v)),
            forall|k: &String, v: &V, o: (String, V2)| f.ensures((k, v), o) ==> o.0@ == k@,
        ensures smap(r).dom() == smap(*h).dom(),
            forall|k: Seq<char>| smap(*h).dom().contains(k) ==> exists|ks: String, ko: String| ks@ == k && ko@ == k && f.ensures((&ks, &smap(*h)[k]), (ko, #[trigger] smap(r)[k])),
    { unimplemented!() }
    // V.iter().map(F).collect::<Vec<_>>()
    #[verifier::external_body]
    pub fn map_vec<A, B, F: Fn(&A) -> B>(xs: &[A], f: F) -> (r: Vec<B>)
        requires forall|x: &A| f.requires((x,)),
        ensures r@.len() == xs@.len(), forall|i: int| 0 <= i < xs@.len() ==> f.ensures((&xs@[i],), #[trigger] r@[i]),
    { unimplemented!() }
    // V.iter().map(F).collect::<Result<Vec<_>, E>>(): all mapped in order, or the first error
    #[verifier::external_body]
    pub fn try_map_vec<A, B, E, F: Fn(&A) -> Result<B, E>>(xs: &[A], f: F) -> (r: Result<Vec<B>, E>)
        requires forall|x: &A| f.requires((x,)),
        ensures r matches Ok(v) ==> v@.len() == xs@.len() && forall|i: int| 0 <= i < xs@.len() ==> f.ensures((&xs@[i],), Ok(#[trigger] v@[i])),
    { unimplemented!() }
    // O.as_ref().map(F)
    #[verifier::external_body]
    pub fn opt_map<A, B, F: Fn(&A) -> B>(o: &Option<A>, f: F) -> (r: Option<B>)
        requires forall|x: &A| f.requires((x,)),
        ensures match (o, r) { (Some(a), Some(b)) => f.ensures((a,), b), (None, None) => true, _ => false },
    { unimplemented!() }
    }
}
"""

CONTACT = """
pub struct ContactType { pub id: u8 }
pub struct AccountContact { pub contact_type: ContactType, pub value: String }
// contact.rs: the type is written as text and parsed back (case-insensitively) as the same type; the value is kept as it is
pub uninterp spec fn ct_parse(s: Seq<char>) -> Option<ContactType>;
impl ContactType {
    #[verifier::external_body]
    pub fn to_string(&self) -> (r: String) ensures ct_parse(r@) == Some(*self) { unimplemented!() }
}
impl AccountContact {
    #[verifier::external_body]
    pub fn new(contact_type: &str, value: &str) -> (r: Result<AccountContact, Error>)
        ensures r matches Ok(c) ==> ct_parse(contact_type@) == Some(c.contact_type) && c.value@ == value@ { unimplemented!() }
}
impl Clone for AccountContact { #[verifier::external_body] fn clone(&self) -> (r: Self) ensures r == *self { unimplemented!() } }
"""

ACCOUNT_STUBS = """
impl Clone for ExternalAccount { #[verifier::external_body] fn clone(&self) -> (r: Self) ensures r == *self { unimplemented!() } }
impl Clone for AccountKey { #[verifier::external_body] fn clone(&self) -> (r: Self) ensures r == *self { unimplemented!() } }
impl AccountKey {
    // account.rs::AccountKey::new
    #[verifier::external_body]
    pub fn new(key_type: KeyType, signature_algorithm: JwsSignatureAlgorithm) -> (r: Result<AccountKey, Error>)
        ensures r matches Ok(k) ==> k.key.key_type == key_type && k.signature_algorithm == signature_algorithm { unimplemented!() }
}
impl Account {
    // account.rs::Account::update_keys (verified in unit account: these are the clauses of its contract that speak of the account's value)
    #[verifier::external_body]
    pub fn update_keys(&mut self, key_type: KeyType, signature_algorithm: JwsSignatureAlgorithm, Tracked(w): Tracked<&mut World>) -> (r: Result<(), Error>)
        ensures
            r is Ok && (old(self).current_key.key.key_type != key_type || old(self).current_key.signature_algorithm != signature_algorithm) ==>
                final(self).past_keys@ == old(self).past_keys@.push(old(self).current_key)
                && final(self).current_key.key.key_type == key_type && final(self).current_key.signature_algorithm == signature_algorithm,
            r is Ok && !(old(self).current_key.key.key_type != key_type || old(self).current_key.signature_algorithm != signature_algorithm) ==>
                *final(self) == *old(self),
            r is Ok ==> final(self).endpoints == old(self).endpoints && final(self).name == old(self).name,
    { unimplemented!() }
}
// the configured key type / algorithm as `load` resolves them
pub open spec fn key_type_of(kt: Option<String>) -> Option<KeyType> {
    match kt { Some(s) => kt_parse(s@), None => Some(crate::DEFAULT_ACCOUNT_KEY_TYPE) }
}
pub open spec fn alg_of(sa: Option<String>, kt: Option<String>) -> Option<JwsSignatureAlgorithm> {
    match sa { Some(s) => alg_parse(s@), None => match key_type_of(kt) { Some(k) => Some(default_alg(k)), None => None } }
}
"""

SPEC = """
// ---- an account and its stored form: every stored field reads back as the account's field
pub open spec fn ep_rel(s: AccountEndpointStorage, e: AccountEndpoint) -> bool {
    s.creation_date == e.creation_date && s.account_url@ == e.account_url@ && s.orders_url@ == e.orders_url@
    && s.key_hash@ == e.key_hash@ && s.contacts_hash@ == e.contacts_hash@ && s.external_account_hash@ == e.external_account_hash@
}
pub open spec fn eps_rel(s: HashMap<String, AccountEndpointStorage>, e: HashMap<String, AccountEndpoint>) -> bool {
    smap(s).dom() == smap(e).dom() && forall|k: Seq<char>| smap(s).dom().contains(k) ==> ep_rel(#[trigger] smap(s)[k], smap(e)[k])
}
pub open spec fn key_rel(s: AccountKeyStorage, k: AccountKey) -> bool {
    s.creation_date == k.creation_date && der_key(s.key@) == Some(k.key) && alg_parse(s.signature_algorithm@) == Some(k.signature_algorithm)
}
pub open spec fn keys_rel(s: Seq<AccountKeyStorage>, k: Seq<AccountKey>) -> bool {
    s.len() == k.len() && forall|i: int| 0 <= i < s.len() ==> key_rel(#[trigger] s[i], k[i])
}
pub open spec fn contact_rel(s: (String, String), c: AccountContact) -> bool {
    crate::account::contact::ct_parse(s.0@) == Some(c.contact_type) && s.1@ == c.value@
}
pub open spec fn contacts_rel(s: Seq<(String, String)>, c: Seq<AccountContact>) -> bool {
    s.len() == c.len() && forall|i: int| 0 <= i < s.len() ==> contact_rel(#[trigger] s[i], c[i])
}
pub open spec fn eab_rel(s: ExternalAccountStorage, e: ExternalAccount) -> bool {
    s.identifier@ == e.identifier@ && s.key@ == e.key@ && alg_parse(s.signature_algorithm@) == Some(e.signature_algorithm)
}
pub open spec fn opt_eab_rel(s: Option<ExternalAccountStorage>, e: Option<ExternalAccount>) -> bool {
    match (s, e) { (Some(x), Some(y)) => eab_rel(x, y), (None, None) => true, _ => false }
}
pub open spec fn stored_as(a: Account, s: AccountStorage) -> bool {
    s.name@ == a.name@ && eps_rel(s.endpoints, a.endpoints) && contacts_rel(s.contacts@, a.contacts@)
    && key_rel(s.current_key, a.current_key) && keys_rel(s.past_keys@, a.past_keys@) && opt_eab_rel(s.external_account, a.external_account)
}
// what `load` must keep of a stored account whatever the configuration says: the endpoint records (account URLs, fingerprints)
// and every key the CA may still hold - the stored current key stays current, or becomes the newest superseded key
pub open spec fn identity_kept(s: AccountStorage, a: Account, kt: Option<KeyType>, alg: Option<JwsSignatureAlgorithm>) -> bool {
    s.name@ == a.name@ && eps_rel(s.endpoints, a.endpoints)
    && ((key_rel(s.current_key, a.current_key) && keys_rel(s.past_keys@, a.past_keys@))
        || (a.past_keys@.len() == s.past_keys@.len() + 1 && keys_rel(s.past_keys@, a.past_keys@.drop_last()) && key_rel(s.current_key, a.past_keys@.last())
            && kt == Some(a.current_key.key.key_type) && alg == Some(a.current_key.signature_algorithm)))
}
"""

LEMMA = """
// Everything survives a restart exactly: two accounts that the same stored form reads back as - the one that was saved and
// the one a later start loads - agree on every field (texts and byte strings compared by content).
pub open spec fn same_key(a: AccountKey, b: AccountKey) -> bool {
    a.creation_date == b.creation_date && a.key == b.key && a.signature_algorithm == b.signature_algorithm
}
pub open spec fn same_account(a: Account, b: Account) -> bool {
    &&& a.name@ == b.name@
    &&& smap(a.endpoints).dom() == smap(b.endpoints).dom()
    &&& forall|k: Seq<char>| smap(a.endpoints).dom().contains(k) ==> ({
            let x = #[trigger] smap(a.endpoints)[k]; let y = smap(b.endpoints)[k];
            x.creation_date == y.creation_date && x.account_url@ == y.account_url@ && x.orders_url@ == y.orders_url@
            && x.key_hash@ == y.key_hash@ && x.contacts_hash@ == y.contacts_hash@ && x.external_account_hash@ == y.external_account_hash@ })
    &&& a.contacts@.len() == b.contacts@.len()
    &&& forall|i: int| 0 <= i < a.contacts@.len() ==> (#[trigger] a.contacts@[i]).contact_type == b.contacts@[i].contact_type && a.contacts@[i].value@ == b.contacts@[i].value@
    &&& same_key(a.current_key, b.current_key)
    &&& a.past_keys@.len() == b.past_keys@.len()
    &&& forall|i: int| 0 <= i < a.past_keys@.len() ==> same_key(#[trigger] a.past_keys@[i], b.past_keys@[i])
    &&& match (a.external_account, b.external_account) {
            (Some(x), Some(y)) => x.identifier@ == y.identifier@ && x.key@ == y.key@ && x.signature_algorithm == y.signature_algorithm,
            (None, None) => true, _ => false }
}
pub proof fn lemma_survives_a_restart(saved: Account, s: AccountStorage, loaded: Account)
    requires stored_as(saved, s), stored_as(loaded, s),
    ensures same_account(saved, loaded), //@C11.everything_survives_a_restart_exactly
{
    assert forall|k: Seq<char>| smap(saved.endpoints).dom().contains(k) implies ({
            let x = #[trigger] smap(saved.endpoints)[k]; let y = smap(loaded.endpoints)[k];
            x.creation_date == y.creation_date && x.account_url@ == y.account_url@ && x.orders_url@ == y.orders_url@
            && x.key_hash@ == y.key_hash@ && x.contacts_hash@ == y.contacts_hash@ && x.external_account_hash@ == y.external_account_hash@ }) by {
        assert(ep_rel(smap(s.endpoints)[k], smap(saved.endpoints)[k]));
        assert(ep_rel(smap(s.endpoints)[k], smap(loaded.endpoints)[k]));
    }
    assert forall|i: int| 0 <= i < saved.contacts@.len() implies (#[trigger] saved.contacts@[i]).contact_type == loaded.contacts@[i].contact_type
            && saved.contacts@[i].value@ == loaded.contacts@[i].value@ by {
        assert(contact_rel(s.contacts@[i], saved.contacts@[i]) && contact_rel(s.contacts@[i], loaded.contacts@[i]));
    }
    assert forall|i: int| 0 <= i < saved.past_keys@.len() implies same_key(#[trigger] saved.past_keys@[i], loaded.past_keys@[i]) by {
        assert(key_rel(s.past_keys@[i], saved.past_keys@[i]) && key_rel(s.past_keys@[i], loaded.past_keys@[i]));
    }
}
// ... and a file cut short at any point is refused: what `save` wrote is an encoding; no proper beginning of it decodes
pub proof fn lemma_truncated_file_is_refused(s: AccountStorage, n: int)
    requires 0 <= n < crate::bincode::enc(s).len(),
    ensures crate::bincode::dec::<AccountStorage>(crate::bincode::enc(s).take(n)) is None, //@C11.a_file_cut_short_does_not_decode
{
    crate::bincode::axiom_truncated(s, n);
}
"""
